#!/venv/bin/python
"""Confirm a candidate seeded defect and file it under /verif/seeded/<id>/.

usage: tools/validate_seed.py <candidate dir with patch.diff demo.py notes.md> <id> <property>
Checks, in a fresh scratch worktree of /repo HEAD (removed afterwards):
  demo passes on the clean tree; patch applies; pinned test-suite passes with the patch;
  demo fails with the patch."""
import json
import os
import shutil
import subprocess
import sys
import tempfile

VERIF = os.path.dirname(os.path.dirname(os.path.abspath(__file__)))


def run(cmd, **kw):
    return subprocess.run(cmd, capture_output=True, text=True, **kw)


def main():
    cand, sid, prop = sys.argv[1], sys.argv[2], sys.argv[3]
    d = tempfile.mkdtemp(prefix="seedval.")
    ok = {}
    try:
        subprocess.run(["git", "-C", "/repo", "worktree", "add", "-q", "--detach", d, "HEAD"], check=True)
        env = dict(os.environ, PYTHONPATH=d)
        demo = os.path.join(cand, "demo.py")
        r = run(["timeout", "300", "/venv/bin/python", "-B", demo], env=env, cwd=d)
        ok["demo_clean_exit"] = r.returncode
        a = run(["git", "-C", d, "apply", os.path.join(cand, "patch.diff")])
        ok["applies"] = a.returncode == 0
        t = run(["/venv/bin/python", "-B", "-m", "pytest", "-q", "-p", "no:cacheprovider", "--timeout=900"], cwd=d, env=env)
        ok["tests"] = t.stdout.strip().splitlines()[-1] if t.stdout.strip() else ""
        ok["tests_pass"] = t.returncode == 0
        r2 = run(["timeout", "300", "/venv/bin/python", "-B", demo], env=env, cwd=d)
        ok["demo_patched_exit"] = r2.returncode
        ok["demo_patched_tail"] = (r2.stdout + r2.stderr)[-300:]
    finally:
        subprocess.run(["git", "-C", "/repo", "worktree", "remove", "--force", d])
        subprocess.run(["rm", "-rf", d])
    good = ok["demo_clean_exit"] == 0 and ok["applies"] and ok["tests_pass"] and ok["demo_patched_exit"] != 0
    print(sid, "CONFIRMED" if good else "REJECTED", json.dumps(ok)[:600])
    if good:
        out = os.path.join(VERIF, "seeded", sid)
        os.makedirs(out, exist_ok=True)
        for f in ("patch.diff", "demo.py", "notes.md"):
            shutil.copy(os.path.join(cand, f), os.path.join(out, f))
        notes = open(os.path.join(cand, "notes.md")).read()
        meta = {
            "id": sid, "property": prop, "source": "independent sub-agent given only the property text and a scratch worktree",
            "needs_to_manifest": notes[:1200],
            "confirmed": {"demo_on_clean_tree_exit": 0, "patch_applies": True, "tests_with_patch": ok["tests"],
                          "demo_with_patch_exit": ok["demo_patched_exit"]},
            "ran": ["PYTHONPATH=<scratch> /venv/bin/python -B demo.py  (clean tree)", "git apply patch.diff",
                    "PYTHONPATH=<scratch> /venv/bin/python -B -m pytest -q -p no:cacheprovider --timeout=900",
                    "PYTHONPATH=<scratch> /venv/bin/python -B demo.py  (patched tree)"],
        }
        json.dump(meta, open(os.path.join(out, "meta.json"), "w"), indent=1)
    return 0 if good else 1


if __name__ == "__main__":
    sys.exit(main())
