#!/venv/bin/python
"""Print the markdown tables of DESIGN 12.6 from seeded/, mutants/, benign/ RESULTS.json."""
import glob
import json
import os
import re

VERIF = os.path.dirname(os.path.dirname(os.path.abspath(__file__)))


def first_line(notes: str) -> str:
    for ln in notes.splitlines():
        ln = ln.strip().lstrip("#").strip()
        if ln and not ln.lower().startswith(("ran", "tests")):
            return re.sub(r"\s+", " ", ln)[:140]
    return ""


def main():
    res = json.load(open(os.path.join(VERIF, "seeded", "RESULTS.json")))
    print("| seed | change (from its notes.md) | quick check | first violation reported |")
    print("|---|---|---|---|")
    for d in sorted(glob.glob(os.path.join(VERIF, "seeded", "*/meta.json"))):
        sid = os.path.basename(os.path.dirname(d))
        notes = open(os.path.join(os.path.dirname(d), "notes.md")).read()
        r = res.get(sid, {})
        verdict = "caught (%ss)" % r.get("seconds") if r.get("detected") else ("**missed**" if r else "not run")
        first = r.get("first", "")
        m = re.search(r"class=(\S+)", first)
        print("| %s | %s | %s | %s |" % (sid, first_line(notes).replace("|", "/"), verdict, m.group(1) if m else ""))
    for corpus in ("mutants", "benign"):
        p = os.path.join(VERIF, corpus, "RESULTS.json")
        if os.path.exists(p):
            r = json.load(open(p))
            if corpus == "mutants":
                det = sum(1 for e in r.values() if e.get("detected"))
                print("\nmutants: %d/%d detected; missed: %s" % (det, len(r), sorted(k for k, e in r.items() if not e.get("detected"))))
            else:
                print("\nbenign: %d/%d clean; alarms: %s" % (sum(1 for e in r.values() if e.get("clean")), len(r),
                                                           sorted(k for k, e in r.items() if not e.get("clean"))))


if __name__ == "__main__":
    main()
