#!/venv/bin/python
"""Regenerate /verif/mutants/*.patch from (file, old, new) edits against /repo HEAD.

The sensitivity corpus: each patch compiles, passes the pinned test-suite (checked by
tools/run_mutants.py --tests) and breaks one claimed property."""
import os
import subprocess
import sys
import tempfile

M = []


def m(name, file, old, new, count=1):
    M.append((name, [(file, old, new, count)]))


def mm(name, edits):
    M.append((name, [(f, o, n, 1) for f, o, n in edits]))


# ---------------------------------------------------------------- C15
m("C15-replace-no-overwrite", "apischema/dataclasses.py",
  "set_fields(result, *fields_set(__obj), *changes, overwrite=True)",
  "set_fields(result, *fields_set(__obj), *changes)")
m("C15-ignore-default-as-set", "apischema/fields.py",
  "            if field.metadata.get(DEFAULT_AS_SET_METADATA):\n                post_init_fields.add(field.name)\n",
  "")
m("C15-inherited-support-ignored", "apischema/fields.py",
  "    return any(base in _fields_set_classes for base in cls.__mro__)",
  "    return cls in _fields_set_classes")
m("C15-setattr-skips-equal-value", "apischema/fields.py",
  "        try:\n            self.__dict__[FIELDS_SET_ATTR].add(attr)\n",
  "        try:\n            if self.__dict__.get(attr, ...) != value:\n                self.__dict__[FIELDS_SET_ATTR].add(attr)\n            else:\n                self.__dict__[FIELDS_SET_ATTR]\n")
m("C15-unset-only-first", "apischema/fields.py",
  "    _fields_set(obj).difference_update(map(get_field_name, fields))",
  "    _fields_set(obj).difference_update(map(get_field_name, fields[:1]))")
m("C15-overwrite-clears-after-update", "apischema/fields.py",
  "    if overwrite:\n        _fields_set(obj).clear()\n    _fields_set(obj).update(map(get_field_name, fields))\n",
  "    _fields_set(obj).update(map(get_field_name, fields))\n    if overwrite and len(fields) > 2:\n        _fields_set(obj).intersection_update(map(get_field_name, fields[:2]))\n    elif overwrite:\n        _fields_set(obj).intersection_update(map(get_field_name, fields))\n")
m("C15-exclude-unset-uses-alias", "apischema/serialization/methods.py",
  "else (not self.exclude_unset or self.name in getattr(obj, FIELDS_SET_ATTR))",
  "else (not self.exclude_unset or (self.alias or self.name) in getattr(obj, FIELDS_SET_ATTR))")
m("C15-noinit-fields-not-set", "apischema/fields.py",
  "            if field._field_type == _FIELD and not field.init:  # type: ignore\n                post_init_fields.add(field.name)\n",
  "")
m("C15-replace-drops-source-set", "apischema/dataclasses.py",
  "set_fields(result, *fields_set(__obj), *changes, overwrite=True)",
  "set_fields(result, *changes, overwrite=True)")
m("C15-positional-args-off-by-one", "apischema/fields.py",
  "arg_fields = {*params[: len(args)], *kwargs} - init_fields",
  "arg_fields = {*params[: max(len(args) - 1, 0) if len(args) > 2 else len(args)], *kwargs} - init_fields")

# ---------------------------------------------------------------- C09
m("C09-revert-delitem-reset", "apischema/cache.py",
  "        del self.wrapped[key]\n        reset()\n", "        del self.wrapped[key]\n")
m("C09-revert-errors-metaclass", "apischema/settings.py",
  "    class errors(metaclass=ResetCache):", "    class errors:")
m("C09-revert-schema-registry", "apischema/schemas.py",
  "_schemas: MutableMapping[Any, Schema] = CacheAwareDict({})", "_schemas: MutableMapping[Any, Schema] = {}")
m("C09-revert-validator-reassign", "apischema/validation/validators.py",
  "        _validators[owner] = [*_validators[owner], self]\n", "        _validators[owner].append(self)\n")
m("C09-revert-set-size", "apischema/cache.py",
  "        _cached.append(cached)\n", "")
m("C09-setitem-no-reset", "apischema/cache.py",
  "        self.wrapped[key] = value\n        reset()\n", "        self.wrapped[key] = value\n")
# (dropping ResetCache from settings.serialization is an *equivalent* mutant: every attribute of that
#  class is an lru key parameter of serialization_method_factory, so nothing can go stale)
m("C09-settings-default-hooks-no-reset", "apischema/settings.py",
  "        super().__setattr__(name, value)\n        cache.reset()\n",
  "        super().__setattr__(name, value)\n        if not name.startswith(\"default_\"):\n            cache.reset()\n")
m("C09-object-fields-plain-lru", "apischema/objects/getters.py",
  "@cache\ndef object_fields(", "@lru_cache()\ndef object_fields(")
m("C09-reset-skips-when-key-present", "apischema/cache.py",
  "        self.wrapped[key] = value\n        reset()\n",
  "        fresh = key not in self.wrapped\n        self.wrapped[key] = value\n        if fresh:\n            reset()\n")
m("C09-reset-clears-only-first-half", "apischema/cache.py",
  "    for cached in _cached:\n        cached.cache_clear()\n",
  "    for cached in _cached[: len(_cached) - 1]:\n        cached.cache_clear()\n")
m("C09-reset-skips-first-wrapper", "apischema/cache.py",
  "    for cached in _cached:\n        cached.cache_clear()\n",
  "    for cached in _cached[1:]:\n        cached.cache_clear()\n")
m("C09-settings-setattr-skips-equal", "apischema/settings.py",
  "        super().__setattr__(name, value)\n        cache.reset()\n",
  "        changed = self.__dict__.get(name, ...) is not value\n        super().__setattr__(name, value)\n        if changed and not isinstance(value, bool):\n            cache.reset()\n")

# ---------------------------------------------------------------- C20
_LOCKED = ("    with _recursion_lock:\n        cache, rec_key = recursion_cache(checker_cls), (tp, conversion)\n"
           "        if rec_key not in cache:\n            checker_cls(default_conversion).visit_with_conv(tp, conversion)\n"
           "        return cache[rec_key]\n")
m("C20-revert-lock", "apischema/recursion.py", _LOCKED,
  "    cache, rec_key = recursion_cache(checker_cls), (tp, conversion)\n    if rec_key not in cache:\n"
  "        checker_cls(default_conversion).visit_with_conv(tp, conversion)\n    return cache[rec_key]\n")
m("C20-lock-analysis-only", "apischema/recursion.py", _LOCKED,
  "    cache, rec_key = recursion_cache(checker_cls), (tp, conversion)\n    if rec_key not in cache:\n"
  "        with _recursion_lock:\n            checker_cls(default_conversion).visit_with_conv(tp, conversion)\n"
  "    return cache[rec_key]\n")
mm("C20-lazy-lock-creation", [
    ("apischema/recursion.py", "_recursion_lock = RLock()\n",
     "_recursion_locks: dict = {}\n\n\ndef _lock_for(checker_cls):\n    if checker_cls not in _recursion_locks:\n"
     "        _recursion_locks[checker_cls] = RLock()\n    return _recursion_locks[checker_cls]\n"),
    ("apischema/recursion.py", "    with _recursion_lock:\n        cache, rec_key", "    with _lock_for(checker_cls):\n        cache, rec_key"),
])
m("C20-recmethod-placeholder", "apischema/deserialization/methods.py",
  "    def deserialize(self, data: Any) -> Any:\n        if self.method is None:\n            self.method = self.lazy()\n        return self.method.deserialize(data)",
  "    def deserialize(self, data: Any) -> Any:\n        if self.method is None:\n            self.method = _Pending()  # mark as being resolved\n            self.method = self.lazy()\n        return self.method.deserialize(data)\n\n\nclass _Pending(DeserializationMethod):\n    def deserialize(self, data: Any) -> Any:\n        raise RuntimeError(\"recursive method is being resolved\")")
m("C20-method-handwritten-cache", "apischema/deserialization/__init__.py",
  "    @lru_cache()\n    def _method(self) -> DeserializationMethod:\n        return self.factory(self.constraints, self.validators)\n",
  "    def _method(self) -> DeserializationMethod:\n        if self not in _methods:\n            _methods[self] = None  # reserve the slot\n            _methods[self] = self.factory(self.constraints, self.validators)\n        return _methods[self]  # type: ignore\n")
m("C20-lazy-conversion-handrolled", "apischema/conversions/conversions.py",
  "        object.__setattr__(self, \"get\", lru_cache(1)(self.get))\n",
  "        getter, state = self.get, []\n\n        def get():\n            if not state:\n                state.append(None)\n                state[0] = getter()\n            return state[0]\n\n        object.__setattr__(self, \"get\", get)\n")
mm("C20-shared-visitor", [("apischema/deserialization/__init__.py",
  "    return DeserializationMethodVisitor(\n        additional_properties,\n        aliaser,\n        coercer,\n        default_conversion,\n        fall_back_on_default,\n        no_copy,\n        pass_through,\n    ).visit_with_conv(tp, conversion)\n",
  "    key = (additional_properties, aliaser, coercer, default_conversion, fall_back_on_default, no_copy, pass_through)\n"
  "    if key not in _visitors:\n        _visitors[key] = DeserializationMethodVisitor(*key)\n"
  "    visitor = _visitors[key]\n    first_visit, visitor._first_visit = visitor._first_visit, True\n    try:\n"
  "        return visitor.visit_with_conv(tp, conversion)\n    finally:\n        visitor._first_visit = first_visit\n"),
  ("apischema/deserialization/__init__.py", "@cache\ndef deserialization_method_factory(", "_visitors: dict = {}\n\n\n@cache\ndef deserialization_method_factory(")])
m("C20-iterate-registry", "apischema/conversions/converters.py",
  "def default_serialization(tp: Type) -> Optional[AnyConversion]:\n",
  "def default_serialization(tp: Type) -> Optional[AnyConversion]:\n    for registered in _deserializers:  # warm-up of the reverse registry\n        if registered is tp:\n            break\n")

m("C20-method-handwritten-cache-decl", "apischema/deserialization/__init__.py",
  "@dataclasses.dataclass(frozen=True)\nclass DeserializationMethodFactory:",
  "_methods: dict = {}\n\n\n@dataclasses.dataclass(frozen=True)\nclass DeserializationMethodFactory:")


# ---------------------------------------------------------------- behaviour-preserving patches
B = []


def b(name, edits):
    B.append((name, [(f, o, n, 1) for f, o, n in edits]))


b("benign-lazy-conversion-locked-memo", [("apischema/conversions/conversions.py",
  "        object.__setattr__(self, \"get\", lru_cache(1)(self.get))\n",
  "        import threading\n\n        getter, state, lock = self.get, [], threading.Lock()\n\n        def get():\n"
  "            if not state:\n                with lock:\n                    if not state:\n"
  "                        state.append(getter())\n            return state[0]\n\n"
  "        object.__setattr__(self, \"get\", get)\n")])
b("benign-method-dict-and-lock", [
  ("apischema/deserialization/__init__.py",
   "    @lru_cache()\n    def _method(self) -> DeserializationMethod:\n        return self.factory(self.constraints, self.validators)\n",
   "    def _method(self) -> DeserializationMethod:\n        with _methods_lock:\n            if self not in _methods:\n"
   "                _methods[self] = self.factory(self.constraints, self.validators)\n            return _methods[self]\n"),
  ("apischema/deserialization/__init__.py",
   "@dataclasses.dataclass(frozen=True)\nclass DeserializationMethodFactory:",
   "import threading\n\n_methods: dict = {}\n_methods_lock = threading.RLock()\n\n\n@dataclasses.dataclass(frozen=True)\nclass DeserializationMethodFactory:")])
b("benign-recmethod-locked", [("apischema/deserialization/methods.py",
  "        if self.method is None:\n            self.method = self.lazy()\n        return self.method.deserialize(data)",
  "        if self.method is None:\n            with _rec_lock:\n                if self.method is None:\n"
  "                    self.method = self.lazy()\n        return self.method.deserialize(data)\n\n\nimport threading  # noqa: E402\n\n_rec_lock = threading.RLock()")])
b("benign-ordered-registry", [("apischema/conversions/converters.py",
  "_serializers: MutableMapping[AnyType, ConvOrFunc] = CacheAwareDict({})",
  "from collections import OrderedDict  # noqa: E402\n\n_serializers: MutableMapping[AnyType, ConvOrFunc] = CacheAwareDict(OrderedDict())")])
b("benign-double-reset-and-rename", [
  ("apischema/cache.py", "        self.wrapped[key] = value\n        reset()\n", "        self.wrapped[key] = value\n        reset()\n        reset()\n"),
  ("apischema/recursion.py", "_recursion_lock = RLock()", "_analysis_lock = RLock()"),
  ("apischema/recursion.py", "    with _recursion_lock:", "    with _analysis_lock:")])
b("benign-nested-locks-consistent-order", [
  ("apischema/recursion.py", "def recursion_cache(checker_cls: Type[RecursiveChecker]) -> Dict[RecursionKey, bool]:\n    return {}",
   "def recursion_cache(checker_cls: Type[RecursiveChecker]) -> Dict[RecursionKey, bool]:\n    with _inner_lock:\n        return {}"),
  ("apischema/recursion.py", "_recursion_lock = RLock()", "_recursion_lock = RLock()\n_inner_lock = RLock()")])
b("benign-fields-set-update", [("apischema/fields.py",
  "            self.__dict__[FIELDS_SET_ATTR].add(attr)", "            self.__dict__[FIELDS_SET_ATTR].update((attr,))")])
b("benign-visit-reorder-under-lock", [("apischema/recursion.py",
  "            self._guard_indices[rec_key] = len(self._guard)\n            self._guard.append(rec_key)\n",
  "            self._guard.append(rec_key)\n            self._guard_indices[rec_key] = len(self._guard) - 1\n")])


def main():
    out = os.path.join(os.path.dirname(os.path.dirname(os.path.abspath(__file__))), "mutants")
    os.makedirs(out, exist_ok=True)
    # merge "-decl" helper edits into their main mutant
    merged = {}
    for name, edits in M:
        base = name[:-5] if name.endswith("-decl") else name
        merged.setdefault(base, []).extend(edits)
    for f in os.listdir(out):
        if f.endswith(".patch"):
            os.unlink(os.path.join(out, f))
    d = tempfile.mkdtemp(prefix="mkmut.")
    try:
        subprocess.run(["git", "-C", "/repo", "worktree", "add", "-q", "--detach", d, "HEAD"], check=True)
        for name, edits in merged.items():
            for file, old, new, count in edits:
                p = os.path.join(d, file)
                s = open(p).read()
                if s.count(old) < 1:
                    print("!! %s: pattern not found in %s" % (name, file))
                    continue
                s = s.replace(old, new, count)
                if name == "C09-object-fields-plain-lru" and "from functools import lru_cache" not in s:
                    s = s.replace("import inspect\n", "import inspect\nfrom functools import lru_cache\n", 1)
                open(p, "w").write(s)
            diff = subprocess.run(["git", "-C", d, "diff"], capture_output=True, text=True).stdout
            if not diff.strip():
                print("!! %s: empty diff" % name)
            open(os.path.join(out, name + ".patch"), "w").write(diff)
            subprocess.run(["git", "-C", d, "checkout", "-q", "--", "."], check=True)
            r = subprocess.run(["/venv/bin/python", "-m", "compileall", "-q", os.path.join(d, "apischema")], capture_output=True)
        print("wrote %d patches" % len(merged))
        bout = os.path.join(os.path.dirname(out), "benign")
        os.makedirs(bout, exist_ok=True)
        for name, edits in B:
            for file, old, new, count in edits:
                p = os.path.join(d, file)
                s = open(p).read()
                if s.count(old) < 1:
                    print("!! %s: pattern not found in %s" % (name, file))
                    continue
                open(p, "w").write(s.replace(old, new, count))
            diff = subprocess.run(["git", "-C", d, "diff"], capture_output=True, text=True).stdout
            open(os.path.join(bout, name + ".patch"), "w").write(diff)
            subprocess.run(["git", "-C", d, "checkout", "-q", "--", "."], check=True)
        print("wrote %d benign patches" % len(B))
    finally:
        subprocess.run(["git", "-C", "/repo", "worktree", "remove", "--force", d])


if __name__ == "__main__":
    main()
