#!/venv/bin/python
"""Sensitivity self-test: apply each patch of a corpus to a scratch worktree of /repo HEAD
(under mktemp, removed right after), optionally run the pinned test-suite on it, and run
the quick tier of the property's check against it with VERIF_REPO=<scratch>.

usage: tools/run_mutants.py [--dir mutants|seeded] [--tests] [--only PREFIX] [--tier quick]
Writes <dir>/RESULTS.json."""
import argparse
import glob
import json
import os
import subprocess
import sys
import tempfile
import time

VERIF = os.path.dirname(os.path.dirname(os.path.abspath(__file__)))


def run(cmd, **kw):
    return subprocess.run(cmd, capture_output=True, text=True, **kw)


def main():
    ap = argparse.ArgumentParser()
    ap.add_argument("--dir", default="mutants")
    ap.add_argument("--tests", action="store_true")
    ap.add_argument("--only", default="")
    ap.add_argument("--tier", default="quick")
    ap.add_argument("--expect-clean", action="store_true", help="corpus of behaviour-preserving patches")
    a = ap.parse_args()
    base = os.path.join(VERIF, a.dir)
    patches = []
    if a.dir == "seeded":
        for d in sorted(glob.glob(os.path.join(base, "*/patch.diff"))):
            name = os.path.basename(os.path.dirname(d))
            meta = json.load(open(os.path.join(os.path.dirname(d), "meta.json")))
            patches.append((name, d, meta["property"]))
    else:
        for p in sorted(glob.glob(os.path.join(base, "*.patch"))):
            name = os.path.basename(p)[:-6]
            patches.append((name, p, name.split("-")[0]))
    if a.expect_clean:
        patches = [(n, p, "all") for n, p, _ in patches]
    results = {}
    rfile = os.path.join(base, "RESULTS.json")
    if os.path.exists(rfile) and a.only:
        results = json.load(open(rfile))
    if a.dir == "benign" and not results:
        try:
            results = json.load(open(rfile))
        except Exception:
            results = {}
    for name, patch, prop in patches:
        if a.only and not name.startswith(a.only):
            continue
        d = tempfile.mkdtemp(prefix="mut.")
        try:
            subprocess.run(["git", "-C", "/repo", "worktree", "add", "-q", "--detach", d, "HEAD"], check=True)
            r = run(["git", "-C", d, "apply", patch])
            if r.returncode != 0:
                results[name] = {"error": "patch does not apply: " + r.stderr[-300:]}
                print(name, "PATCH-FAILED")
                continue
            entry = {"property": prop}
            if a.tests:
                t = run(["/venv/bin/python", "-B", "-m", "pytest", "-q", "-p", "no:cacheprovider", "--timeout=900"],
                        cwd=d, env=dict(os.environ, PYTHONPATH=d))
                entry["tests"] = t.stdout.strip().splitlines()[-1] if t.stdout.strip() else t.stderr[-200:]
                entry["tests_pass"] = t.returncode == 0
            t0 = time.time()
            env = dict(os.environ, VERIF_REPO=d)
            env.pop("DST_BOOTED", None)
            if a.expect_clean:
                exits = {}
                for pr in ("C15", "C09", "C20"):
                    c = run([os.path.join(VERIF, "check"), pr, "--tier", a.tier], env=env)
                    exits[pr] = c.returncode
                    if c.returncode != 0:
                        entry["output_%s" % pr] = (c.stdout + c.stderr)[-800:]
                entry["exits"] = exits
                entry["seconds"] = round(time.time() - t0, 1)
                entry["clean"] = all(v == 0 for v in exits.values())
                results[name] = entry
                print(name, "clean" if entry["clean"] else "FALSE-ALARM %s" % exits, entry["seconds"], "s",
                      entry.get("tests", ""), flush=True)
                continue
            c = run([os.path.join(VERIF, "check"), prop, "--tier", a.tier], env=env)
            entry["exit"] = c.returncode
            entry["seconds"] = round(time.time() - t0, 1)
            viol = [l for l in c.stdout.splitlines() if l.startswith("VIOLATION")]
            entry["violation_lines"] = len(viol)
            cls = [l for l in c.stderr.splitlines() if l.startswith("violation:")]
            entry["first"] = cls[0][:300] if cls else ""
            entry["detected"] = c.returncode == 1 and bool(viol)
            if c.returncode not in (0, 1):
                entry["stderr_tail"] = c.stderr[-600:]
            results[name] = entry
            print(name, "DETECTED" if entry["detected"] else "missed(exit %d)" % c.returncode, entry["seconds"], "s",
                  entry.get("tests", ""), flush=True)
        finally:
            subprocess.run(["git", "-C", "/repo", "worktree", "remove", "--force", d])
            subprocess.run(["rm", "-rf", d])
            json.dump(results, open(rfile, "w"), indent=1, sort_keys=True)
    if a.expect_clean:
        print("%d/%d clean" % (sum(1 for e in results.values() if e.get("clean")), len(results)))
    else:
        det = sum(1 for e in results.values() if e.get("detected"))
        print("%d/%d detected" % (det, len(results)))


if __name__ == "__main__":
    main()
