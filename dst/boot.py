"""Boot discipline: one pristine, reproducible interpreter image ("zygote").

``ensure_booted()`` re-executes the interpreter once with

* ``PYTHONHASHSEED=0``       -- set iteration orders and ``hash(str)`` are fixed,
* ASLR off (``personality(ADDR_NO_RANDOMIZE)``) -- ``id()`` of objects created in the
  same order are the same in every process, so address-hashed sets iterate alike,
* ``-B``                      -- no stale byte code of an edited tree is ever used,

``load_apischema()`` then installs the lock seam, puts ``$VERIF_REPO`` (default
``/repo``) first on ``sys.path`` and imports apischema from there, checking that the
module really comes from that tree.  Nothing here reads a clock or a PRNG.
"""
import ctypes
import gc
import os
import sys

ADDR_NO_RANDOMIZE = 0x0040000
BOOT_FLAG = "DST_BOOTED"

aslr_off = False


def repo_path() -> str:
    return os.path.realpath(os.environ.get("VERIF_REPO", "/repo"))


def ensure_booted() -> None:
    """Re-exec self under the fixed hash seed / no ASLR unless already done."""
    global aslr_off
    if os.environ.get(BOOT_FLAG) == "1":
        try:
            libc = ctypes.CDLL(None)
            aslr_off = bool(libc.personality(0xFFFFFFFF) & ADDR_NO_RANDOMIZE)
        except Exception:  # pragma: no cover
            aslr_off = False
        return
    env = dict(os.environ)
    env[BOOT_FLAG] = "1"
    env["PYTHONHASHSEED"] = "0"
    env["PYTHONDONTWRITEBYTECODE"] = "1"
    env.pop("PYTHONPATH", None)
    if os.environ.get("DST_KEEP_ASLR") != "1":
        try:
            libc = ctypes.CDLL(None)
            libc.personality(ADDR_NO_RANDOMIZE)
        except Exception:  # sandbox refuses: carry on, evidence will say so
            pass
    else:
        env.pop("PYTHONHASHSEED", None)
    argv = [sys.executable, "-B"] + sys.argv
    if getattr(sys, "orig_argv", None) and "-m" in sys.orig_argv:
        i = sys.orig_argv.index("-m")
        argv = [sys.executable, "-B", "-m", sys.orig_argv[i + 1]] + sys.argv[1:]
    os.execve(sys.executable, argv, env)


_loaded = None


def load_apischema():
    """Import apischema from $VERIF_REPO with the lock seam installed. Idempotent."""
    global _loaded
    if _loaded is not None:
        return _loaded
    from dst import locks

    locks.install()
    repo = repo_path()
    # the editable install puts /repo on sys.path through a .pth file: override it
    sys.path[:] = [p for p in sys.path if os.path.realpath(p or ".") != repo]
    sys.path.insert(0, repo)
    for name in list(sys.modules):
        if name == "apischema" or name.startswith("apischema."):
            raise RuntimeError("apischema imported before the lock seam was installed")
    import apischema  # noqa

    got = os.path.realpath(os.path.dirname(apischema.__file__))
    if got != os.path.join(repo, "apischema"):
        raise RuntimeError(f"apischema imported from {got}, expected under {repo}")
    gc.disable()
    _loaded = apischema
    return apischema


def apischema_dir() -> str:
    return os.path.join(repo_path(), "apischema") + os.sep


def tree_fingerprint() -> str:
    """blake2b over the apischema sources of the tree under test."""
    import hashlib

    h = hashlib.blake2b(digest_size=8)
    base = os.path.join(repo_path(), "apischema")
    for root, dirs, files in sorted(os.walk(base)):
        dirs.sort()
        for f in sorted(files):
            if f.endswith(".py"):
                p = os.path.join(root, f)
                h.update(os.path.relpath(p, base).encode())
                with open(p, "rb") as fh:
                    h.update(fh.read())
    return h.hexdigest()
