"""Seeded cooperative scheduler over real threads (the C20 simulator core).

Real OS threads run apischema code; exactly one of them holds the *baton* at any
time, every other one is parked on its private gate lock.  ``sys.settrace`` gives a
yield point at every ``call`` / ``line`` / ``return`` (and optionally ``opcode``)
event of frames whose file lies under the tree under test (plus the workload
files); at a yield point the strategy -- driven only by the run's PRNG or by a
recorded script -- may hand the baton to another runnable thread.  Thread start-up,
thread exit and blocking on a simulated lock are *forced* switches.

Everything the run decides is recorded: ``switches`` (the schedule: step, kind, from,
to, site), a rolling ``digest`` of all events, ``steps``.  Re-running with
``script=switches`` reproduces the run; any sub-list of a script is still a legal
schedule (missing forced choices fall back to the lowest runnable thread index), which
is what ddmin needs.
"""
import _thread
import sys
from typing import Callable, Dict, List, Optional, Sequence, Tuple

_get_ident = _thread.get_ident
_alloc = _thread.allocate_lock


class SimAbort(BaseException):
    """Raised inside simulated threads to unwind them when the run is aborted."""


class SimThread:
    __slots__ = ("idx", "fn", "gate", "done", "blocked_on", "ident", "started", "error")

    def __init__(self, idx: int, fn: Callable[[], None]):
        self.idx = idx
        self.fn = fn
        self.gate = _alloc()
        self.gate.acquire()
        self.done = False
        self.blocked_on = None
        self.ident = None
        self.started = False
        self.error = None


# ------------------------------------------------------------------ strategies


class Strategy:
    name = "?"

    def params(self):
        return []

    def start(self, sim: "Sim") -> None:
        pass

    def decide(self, sim: "Sim", event: str, frame) -> Optional[SimThread]:
        """Called at every yield point of the running thread; return the thread to
        switch to, or None to keep running."""
        return None

    def pick(self, sim: "Sim", runnable: List[SimThread]) -> SimThread:
        """Forced choice (start, thread exit, block)."""
        return runnable[sim.rng.randrange(len(runnable))]


class NoPreempt(Strategy):
    """Threads run to completion one after another in a random order."""

    name = "nopreempt"


class Uniform(Strategy):
    """Pre-empt with probability p at every yield point (geometric gaps)."""

    name = "uniform"

    def __init__(self, p: float):
        self.p = p
        self.next = 0

    def params(self):
        return [self.p]

    def _gap(self, rng) -> int:
        # geometric(p) drawn with one uniform: number of yields until the next switch
        import math

        u = rng.random()
        if self.p >= 1.0:
            return 1
        return 1 + int(math.log(1.0 - u) / math.log(1.0 - self.p))

    def start(self, sim):
        self.next = sim.step + self._gap(sim.rng)

    def decide(self, sim, event, frame):
        if sim.step < self.next:
            return None
        self.next = sim.step + self._gap(sim.rng)
        others = [t for t in sim.threads if t is not sim.current and sim.is_runnable(t)]
        if not others:
            return None
        return others[sim.rng.randrange(len(others))]


class PCT(Strategy):
    """PCT (Burckhardt et al.): random priorities, d-1 priority change points."""

    name = "pct"

    def __init__(self, depth: int, horizon: int):
        self.depth = depth
        self.horizon = horizon
        self.prio: Dict[int, int] = {}
        self.points: List[int] = []

    def params(self):
        return [self.depth, self.horizon]

    def start(self, sim):
        idx = [t.idx for t in sim.threads]
        sim.rng.shuffle(idx)
        # high number = high priority; change points push below everything
        self.prio = {i: self.depth + n for n, i in enumerate(idx)}
        self.points = sorted(
            sim.rng.randrange(1, self.horizon) for _ in range(self.depth - 1)
        )
        self.low = self.depth - 1

    def _best(self, sim, cand):
        return max(cand, key=lambda t: self.prio[t.idx])

    def decide(self, sim, event, frame):
        if self.points and sim.step >= self.points[0]:
            self.points.pop(0)
            self.prio[sim.current.idx] = self.low
            self.low -= 1
            cand = [t for t in sim.threads if sim.is_runnable(t)]
            best = self._best(sim, cand)
            return best if best is not sim.current else None
        return None

    def pick(self, sim, runnable):
        return self._best(sim, runnable)


class Targeted(Strategy):
    """Pre-empt (probability q) only at call/return of 'interesting' functions."""

    name = "targeted"

    SITES = frozenset(
        [
            "visit",
            "visit_with_conv",
            "is_recursive",
            "recursion_cache",
            "deserialize",
            "serialize",
            "get",
            "_method",
            "method",
            "lazy_result",
            "factory",
            "wrapper",
            "object_fields",
            "deserialization_method_factory",
            "serialization_method_factory",
            "_recursive_result",
            "visit_not_recursive",
            "__getitem__",
            "__setitem__",
            "visit_conversion",
            "_visit_conversion",
            "object",
            "__init__",
        ]
    )

    def __init__(self, q: float):
        self.q = q

    def params(self):
        return [self.q]

    def decide(self, sim, event, frame):
        if event == "line" or event == "opcode":
            return None
        if frame.f_code.co_name not in self.SITES:
            return None
        if sim.rng.random() >= self.q:
            return None
        others = [t for t in sim.threads if t is not sim.current and sim.is_runnable(t)]
        if not others:
            return None
        return others[sim.rng.randrange(len(others))]


class LazyInit(Strategy):
    """Park a thread on a line inside a lazy-initialisation body (sites found statically in
    the tree under test, dst/c20/sites.py) and let the others run for a long time: the
    schedule shape behind atomicity violations of check-then-act code.  Per run only a
    random subset of the sites is enabled (swarm), each firing with probability q; a parked
    thread is released when nothing else can run, or early with a small probability."""

    name = "lazyinit"

    def __init__(self, q: float, frac: float, sites, at=None):
        self.q = q
        self.frac = frac
        self.all_sites = sites
        self.at = at  # (absolute file, line): only the sites around that line are enabled
        self.fn_park = None
        self.sites = frozenset()
        self.parked = set()

    def params(self):
        return [self.q, self.frac]

    def start(self, sim):
        ordered = sorted(self.all_sites)
        if self.at is not None:
            f, ln = self.at
            group = [x for x in ordered if x[0] == f and abs(x[1] - ln) <= 6]
            # usually one single line is the parking place of this run, so that every statement
            # boundary gets its turn (before the check-then-act store, between two stores, after the
            # last one); in a third of the runs it is *any* line of the function that holds the site
            # (the victim of a race is often a few lines away from the write that causes it)
            r = sim.rng.random()
            self.fn_park = None
            if group and r < 0.45:
                group = [group[sim.rng.randrange(len(group))]]
            elif r < 0.80:
                self.fn_park = sim.rng.randrange(1 << 16)
                group = []
            self.sites = frozenset(group)
        else:
            self.sites = frozenset(x for x in ordered if sim.rng.random() < self.frac)
        self.parked = set()

    def _others(self, sim):
        return [t for t in sim.threads if t is not sim.current and sim.is_runnable(t) and t.idx not in self.parked]

    def decide(self, sim, event, frame):
        if self.parked and sim.rng.random() < 0.0005:
            cand = [t for t in sim.threads if t.idx in self.parked and sim.is_runnable(t) and t is not sim.current]
            if cand:
                t = cand[sim.rng.randrange(len(cand))]
                self.parked.discard(t.idx)
                return t
        if event != "line" and event != "opcode":
            return None
        if self.fn_park is not None and self.at is not None and frame.f_code.co_filename == self.at[0]:
            # resolve "some line of the function holding the site" when that function shows up
            code = frame.f_code
            lines = sorted({ln for _, _, ln in code.co_lines() if ln})
            if lines and lines[0] <= self.at[1] <= lines[-1] and self.at[1] in lines:
                self.sites = frozenset([(self.at[0], lines[self.fn_park % len(lines)])])
                self.fn_park = None
        if (frame.f_code.co_filename, frame.f_lineno) not in self.sites:
            return None
        if sim.rng.random() >= (self.q if event == "line" else self.q / 6.0):
            return None
        others = self._others(sim)
        if not others:
            return None
        self.parked.add(sim.current.idx)
        return others[sim.rng.randrange(len(others))]

    def pick(self, sim, runnable):
        free = [t for t in runnable if t.idx not in self.parked]
        if not free:
            self.parked.clear()
            free = runnable
        return free[sim.rng.randrange(len(free))]


class Scripted(Strategy):
    """Follow a recorded schedule: list of [step, kind, frm, to, site]."""

    name = "scripted"

    def __init__(self, script: Sequence[Sequence]):
        self.script = [list(e) for e in script]
        self.i = 0

    def decide(self, sim, event, frame):
        s = self.script
        n = len(s)
        while self.i < n and s[self.i][0] < sim.step:
            self.i += 1
        if self.i < n and s[self.i][0] == sim.step and s[self.i][1] == "p":
            to = s[self.i][3]
            self.i += 1
            t = sim.threads[to] if 0 <= to < len(sim.threads) else None
            if t is not None and t is not sim.current and sim.is_runnable(t):
                return t
        return None

    def pick(self, sim, runnable):
        s = self.script
        n = len(s)
        while self.i < n and (
            s[self.i][0] < sim.step or (s[self.i][0] == sim.step and s[self.i][1] == "p")
        ):
            self.i += 1
        if self.i < n and s[self.i][0] == sim.step and s[self.i][1] == "f":
            to = s[self.i][3]
            self.i += 1
            for t in runnable:
                if t.idx == to:
                    return t
        return min(runnable, key=lambda t: t.idx)


_SITES = None


def make_strategy(spec: Sequence) -> Strategy:
    kind = spec[0]
    if kind == "uniform":
        return Uniform(spec[1])
    if kind == "pct":
        return PCT(spec[1], spec[2])
    if kind == "targeted":
        return Targeted(spec[1])
    if kind == "lazyinit":
        from dst.c20 import sites as _sites

        global _SITES
        if _SITES is None:
            from dst import boot

            _SITES = _sites.as_set(_sites.scan(boot.apischema_dir()))
        at = None
        if len(spec) > 3 and spec[2] == "at":
            from dst import boot

            f, ln = spec[3].rsplit(":", 1)
            at = (boot.apischema_dir() + f, int(ln))
        return LazyInit(spec[1], spec[2] if at is None else 1.0, _SITES, at)
    if kind == "nopreempt":
        return NoPreempt()
    if kind == "scripted":
        return Scripted(spec[1])
    raise ValueError(spec)


# ------------------------------------------------------------------ simulator


class Sim:
    """One simulated concurrent execution."""

    def __init__(
        self,
        rng,
        strategy: Strategy,
        trace_prefixes: Sequence[str],
        opcode_files: Sequence[str] = (),
        opcode_sites: Optional[Dict[str, Sequence[int]]] = None,
        step_cap: int = 2_000_000,
        probe_sites: Optional[Dict[str, str]] = None,
    ):
        self.rng = rng
        self.strategy = strategy
        self.prefixes = tuple(trace_prefixes)
        self.opcode_files = tuple(opcode_files)
        # opcode granularity only inside functions that contain a lazy-initialisation site
        self.opcode_sites = {f: frozenset(ls) for f, ls in (opcode_sites or {}).items()}
        self.step_cap = step_cap
        self.threads: List[SimThread] = []
        self.current: Optional[SimThread] = None
        self.step = 0
        self.h = 0
        self.switches: List[list] = []
        self.active = False
        self.idents: Dict[int, SimThread] = {}
        self.outcome = None  # None | "deadlock" | "step-cap" | "harness-error"
        self.harness_error = None
        self.deadlock_info = None
        self._main_gate = _alloc()
        self._main_gate.acquire()
        self._code_traced: Dict[object, int] = {}
        self.lock_contention = 0
        self.lock_acquires = 0
        self.stalled = set()
        self.stalls = 0
        # probes: function name -> probe name ; counts "entered by a
        # second thread while another thread is inside"
        self.probe_sites = probe_sites or {}
        self.inside: Dict[str, Dict[int, int]] = {}
        self.probes: Dict[str, int] = {}
        self.conflict_h = 0
        self._last_site_thread: Dict[str, int] = {}

    # -- state queries
    def is_runnable(self, t: SimThread) -> bool:
        return not t.done and t.blocked_on is None and t.idx not in self.stalled

    def runnable(self) -> List[SimThread]:
        run = [t for t in self.threads if not t.done and t.blocked_on is None and t.idx not in self.stalled]
        if not run and self.stalled:
            # nothing else can run: the stalled callbacks return
            self.stalled.clear()
            run = [t for t in self.threads if not t.done and t.blocked_on is None]
        return run

    def stall(self) -> None:
        """Fault "stalled callback": the current thread (inside a user callable) stays parked
        until every other thread has finished or is blocked."""
        cur = self.current
        self.stalls += 1
        self.stalled.add(cur.idx)
        nxt = self._next_after(cur, "f")
        if nxt is None or nxt is cur:
            self.stalled.discard(cur.idx)
            return
        self._handoff(cur, nxt)
        if self.outcome is not None:
            raise SimAbort()

    def in_sim_thread(self) -> bool:
        return self.active and _get_ident() in self.idents

    # -- tracing
    def _traced(self, code) -> int:
        r = self._code_traced.get(code)
        if r is None:
            fn = code.co_filename
            r = 0
            if fn.startswith(self.prefixes):
                r = 1
                # opcode events in generator frames crash CPython 3.12.1 (segfault while a
                # @contextmanager generator is being resumed for __exit__): lines only there
                if self.opcode_files and fn.endswith(self.opcode_files) and not (code.co_flags & 0x2A0):
                    r = 2
                elif fn in self.opcode_sites and not (code.co_flags & 0x2A0):
                    lines = {ln for _, _, ln in code.co_lines() if ln}
                    if lines & self.opcode_sites[fn]:
                        r = 2
            self._code_traced[code] = r
        return r

    def _global_trace(self, frame, event, arg):
        r = self._traced(frame.f_code)
        if not r:
            return None
        try:
            if r == 2:
                frame.f_trace_opcodes = True
            self._probe_enter(frame)
            self._yield(frame, "call")
        except SimAbort:
            raise
        except BaseException as e:  # a bug of the harness must not look like a bug of the tree
            self._harness_failure(e)
        return self._local_trace

    def _local_trace(self, frame, event, arg):
        try:
            if event == "line" or event == "opcode":
                self._yield(frame, event)
            elif event == "return":
                self._probe_exit(frame)
                self._yield(frame, event)
        except SimAbort:
            raise
        except BaseException as e:
            self._harness_failure(e)
        return self._local_trace

    def _harness_failure(self, e):
        import traceback

        self.harness_error = "".join(traceback.format_exception(type(e), e, e.__traceback__))[-1500:]
        self.outcome = "harness-error"
        raise SimAbort()

    def _probe_enter(self, frame):
        if not self.probe_sites:
            return
        code = frame.f_code
        name = self.probe_sites.get(code.co_name)
        if name is None:
            return
        me = self.current.idx
        d = self.inside.setdefault(name, {})
        if any(v > 0 for k, v in d.items() if k != me):
            self.probes[name] = self.probes.get(name, 0) + 1
        d[me] = d.get(me, 0) + 1
        # conflict order: sequence of thread changes at instrumented sites
        last = self._last_site_thread.get(name)
        if last != me:
            self._last_site_thread[name] = me
            self.conflict_h = hash((self.conflict_h, name, me))

    def _probe_exit(self, frame):
        if not self.probe_sites:
            return
        name = self.probe_sites.get(frame.f_code.co_name)
        if name is None:
            return
        d = self.inside.get(name)
        if d is not None:
            me = self.current.idx
            if d.get(me, 0) > 0:
                d[me] -= 1

    def _yield(self, frame, event):
        if self.outcome is not None:
            raise SimAbort()
        self.step += 1
        cur = self.current
        self.h = hash((self.h, cur.idx, frame.f_code.co_name, frame.f_lineno, event))
        if self.step > self.step_cap:
            self._abort("step-cap")
        target = self.strategy.decide(self, event, frame)
        if target is not None and target is not cur:
            code = frame.f_code
            self.switches.append(
                [
                    self.step,
                    "p",
                    cur.idx,
                    target.idx,
                    "%s:%s:%s" % (code.co_filename.rsplit("/", 1)[-1], frame.f_lineno, code.co_name),
                ]
            )
            self._handoff(cur, target)
            if self.outcome is not None:
                raise SimAbort()

    def _handoff(self, cur: SimThread, target: SimThread):
        self.current = target
        target.gate.release()
        cur.gate.acquire()

    def _abort(self, why: str):
        self.outcome = why
        # wake everybody so they unwind with SimAbort, then main
        raise SimAbort()

    # -- forced switches
    def _next_after(self, cur: SimThread, kind: str) -> Optional[SimThread]:
        run = self.runnable()
        if not run:
            return None
        t = self.strategy.pick(self, run)
        self.switches.append([self.step, kind, cur.idx if cur else -1, t.idx, ""])
        return t

    def block_on(self, lock) -> None:
        """Called by a simulated lock: current thread cannot proceed."""
        cur = self.current
        self.lock_contention += 1
        cur.blocked_on = lock
        nxt = self._next_after(cur, "f")
        if nxt is None:
            self.deadlock_info = [
                [t.idx, repr(t.blocked_on)] for t in self.threads if not t.done
            ]
            cur.blocked_on = None
            self._abort("deadlock")
        self._handoff(cur, nxt)
        if self.outcome is not None:
            raise SimAbort()

    def wake_waiters(self, lock) -> None:
        for t in self.threads:
            if t.blocked_on is lock:
                t.blocked_on = None

    # -- thread bodies
    def _boot(self, t: SimThread):
        t.ident = _get_ident()
        self.idents[t.ident] = t
        t.started = True
        self._started_gate.release()
        t.gate.acquire()
        try:
            if self.outcome is None:
                sys.settrace(self._global_trace)
                try:
                    t.fn()
                finally:
                    sys.settrace(None)
        except SimAbort:
            pass
        except BaseException as e:  # workload wrappers catch everything; defensive
            t.error = repr(e)
        t.done = True
        if self.outcome is not None:
            # aborted: release everybody still parked, then main
            for o in self.threads:
                if not o.done and o is not t:
                    self.current = o
                    o.gate.release()
                    return
            self._main_gate.release()
            return
        run = self.runnable()
        if run:
            nxt = self.strategy.pick(self, run)
            self.switches.append([self.step, "f", t.idx, nxt.idx, ""])
            self.current = nxt
            nxt.gate.release()
        else:
            pending = [o for o in self.threads if not o.done]
            if pending:  # everyone left is blocked: deadlock
                self.outcome = "deadlock"
                self.deadlock_info = [[o.idx, repr(o.blocked_on)] for o in pending]
                for o in pending:
                    o.blocked_on = None
                self.current = pending[0]
                pending[0].gate.release()
            else:
                self._main_gate.release()

    def run(self, fns: Sequence[Callable[[], None]]) -> None:
        self.threads = [SimThread(i, fn) for i, fn in enumerate(fns)]
        self._started_gate = _alloc()
        self._started_gate.acquire()
        for t in self.threads:
            _thread.start_new_thread(self._boot, (t,))
            self._started_gate.acquire()  # wait until registered (deterministic idents order)
        self.active = True
        self.strategy.start(self)
        first = self.strategy.pick(self, self.runnable())
        self.switches.append([0, "f", -1, first.idx, ""])
        self.current = first
        first.gate.release()
        self._main_gate.acquire()
        self.active = False
        self.current = None

    def record(self) -> dict:
        return {
            "steps": self.step,
            "digest": "%016x" % (self.h & 0xFFFFFFFFFFFFFFFF),
            "conflict": "%016x" % (self.conflict_h & 0xFFFFFFFFFFFFFFFF),
            "switches": self.switches,
            "outcome": self.outcome,
            "harness_error": self.harness_error,
            "deadlock": self.deadlock_info,
            "lock_contention": self.lock_contention,
            "lock_acquires": self.lock_acquires,
            "stalls": self.stalls,
            "probes": dict(self.probes),
        }


# the simulation currently running in this process (at most one)
CURRENT: Optional[Sim] = None


def run_sim(sim: Sim, fns: Sequence[Callable[[], None]]) -> dict:
    global CURRENT
    CURRENT = sim
    try:
        sim.run(fns)
    finally:
        CURRENT = None
    return sim.record()
