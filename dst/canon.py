"""Canonical, JSON-able, order-preserving image of results and exceptions."""
import dataclasses
import enum
import json
import re

_ADDR = re.compile(r"0x[0-9a-fA-F]{6,}")


def strip_addr(s: str) -> str:
    return _ADDR.sub("0x?", s)


def canon(v, depth=0):
    if depth > 60:
        return {"$deep": True}
    if v is None or isinstance(v, (bool, int, str)):
        if isinstance(v, enum.Enum):
            return {"$e": "%s.%s" % (type(v).__name__, v.name)}
        if type(v) not in (type(None), bool, int, str):
            return {"$sub": type(v).__name__, "v": canon(type(v).__mro__[1](v), depth + 1)}
        return v
    if isinstance(v, float):
        return {"$f": repr(v)}
    if isinstance(v, enum.Enum):
        return {"$e": "%s.%s" % (type(v).__name__, v.name)}
    if isinstance(v, tuple) and hasattr(v, "_fields"):
        return {"$nt": type(v).__name__, "v": [canon(x, depth + 1) for x in v]}
    if isinstance(v, list):
        return [canon(x, depth + 1) for x in v]
    if isinstance(v, tuple):
        return {"$t": [canon(x, depth + 1) for x in v]}
    if isinstance(v, dict):
        return {"$d": [[canon(k, depth + 1), canon(x, depth + 1)] for k, x in v.items()]}
    if isinstance(v, (set, frozenset)):
        items = [canon(x, depth + 1) for x in v]
        items.sort(key=lambda x: json.dumps(x, sort_keys=True))
        return {"$set" if isinstance(v, set) else "$fset": items}
    if dataclasses.is_dataclass(v) and not isinstance(v, type):
        out = {
            "$dc": type(v).__qualname__,
            "f": [[f.name, canon(getattr(v, f.name, "<unset>"), depth + 1)] for f in dataclasses.fields(v)],
        }
        fs = v.__dict__.get("_apischema_fields_set") if hasattr(v, "__dict__") else None
        if fs is not None:
            out["fs"] = sorted(fs)
        return out
    return {"$o": strip_addr(repr(v))}


def canon_exc(e: BaseException):
    name = type(e).__name__
    if name == "ValidationError" and hasattr(e, "errors"):
        try:
            return ["exc", name, canon(e.errors)]
        except Exception as e2:  # pragma: no cover
            return ["exc", name, "errors() failed: %r" % (e2,)]
    if isinstance(e, RecursionError):
        return ["exc", name, ""]
    return ["exc", name, strip_addr(str(e))[:300]]


def dumps(v) -> str:
    return json.dumps(v, sort_keys=True, separators=(",", ":"))
