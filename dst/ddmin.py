"""Delta debugging (Zeller's ddmin) over a list, with an evaluation budget."""
from typing import Callable, List, Sequence, TypeVar

T = TypeVar("T")


def ddmin(items: Sequence[T], fails: Callable[[List[T]], bool], budget: int = 400) -> List[T]:
    """Smallest (1-minimal within budget) sub-list for which fails() is still true.

    ``fails(list(items))`` is assumed true.  Deterministic."""
    cur = list(items)
    n = 2
    calls = 0
    cache = {}

    def test(c: List[T]) -> bool:
        nonlocal calls
        key = tuple(map(repr, c))
        if key in cache:
            return cache[key]
        if calls >= budget:
            return False
        calls += 1
        r = fails(c)
        cache[key] = r
        return r

    if cur and test([]):
        return []
    while len(cur) >= 2:
        chunk = max(1, len(cur) // n)
        subsets = [cur[i : i + chunk] for i in range(0, len(cur), chunk)]
        reduced = False
        for s in subsets:  # reduce to subset
            if len(subsets) > 2 or len(s) < len(cur):
                if len(s) < len(cur) and test(s):
                    cur, n, reduced = s, 2, True
                    break
        if not reduced:
            for i in range(len(subsets)):  # reduce to complement
                comp = [x for j, s in enumerate(subsets) if j != i for x in s]
                if len(comp) < len(cur) and test(comp):
                    cur, n, reduced = comp, max(n - 1, 2), True
                    break
        if not reduced:
            if n >= len(cur):
                break
            n = min(len(cur), n * 2)
        if calls >= budget:
            break
    if len(cur) == 1 and test([]):
        return []
    return cur
