"""./check setup -- verify the sandbox can run the simulator (builds nothing: stdlib only)."""
import os
import sys


def main() -> int:
    from dst import boot, proc

    ap = boot.load_apischema()
    print("python", sys.version.split()[0], "apischema from", os.path.dirname(ap.__file__))
    print("PYTHONHASHSEED", os.environ.get("PYTHONHASHSEED"), "aslr_off", boot.aslr_off)
    a = proc.fork_call(lambda: id(ap))
    b = proc.fork_call(lambda: id(ap))
    if a != b:
        print("fork children disagree on object identity", file=sys.stderr)
        return 2
    os.makedirs(os.path.join(os.path.dirname(os.path.dirname(os.path.abspath(__file__))), "evidence"), exist_ok=True)
    print("setup ok")
    return 0
