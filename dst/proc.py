"""Process discipline: fork-per-run children and a pool of pristine worker zygotes.

The coordinator boots (dst.boot), imports apischema and the workload modules, and
never touches apischema again.  Workers are forked from it and stay pristine too: a
worker only computes plans from seeds, forks a *child* for everything that executes
apischema code, and compares what the children report.  Hence baseline, simulation
and cold reference all start from the same heap image.

Wall-clock time is used here only to bound the harness (budgets, hang guards); no
simulated run reads it.
"""
import faulthandler
import json
import os
import select
import signal
import sys
import time
import traceback
from typing import Any, Callable, Dict, Iterable, Iterator, List, Optional, Tuple

CHILD_TIMEOUT_S = float(os.environ.get("DST_CHILD_TIMEOUT_S", "30"))


class HarnessError(Exception):
    """Something in the machinery (not the tree under test) went wrong."""


def _alarm(signum, frame):
    try:
        sys.stderr.write("dst: child alarm, dumping tracebacks\n")
        faulthandler.dump_traceback(all_threads=True)
    finally:
        os._exit(4)


def fork_call(fn: Callable[..., Any], *args, timeout: float = None) -> Any:
    """Run fn(*args) in a forked child, return its JSON-able result.

    Raises HarnessError on crash / timeout of the child (never a verdict).  A timeout is
    retried once with four times the allowance (executions are deterministic, so the retry
    is the same execution; a loaded machine must not turn into a broken check)."""
    timeout = CHILD_TIMEOUT_S if timeout is None else timeout
    try:
        return _fork_call(fn, args, timeout)
    except HarnessError as e:
        if "timed out" not in str(e):
            raise
    return _fork_call(fn, args, 4 * timeout)


def _fork_call(fn: Callable[..., Any], args, timeout: float) -> Any:
    r, w = os.pipe()
    sys.stdout.flush()
    sys.stderr.flush()
    pid = os.fork()
    if pid == 0:
        code = 0
        try:
            os.close(r)
            # hang diagnosis without a watchdog thread (children may fork again)
            signal.signal(signal.SIGALRM, _alarm)
            signal.alarm(max(1, int(timeout) - 1))
            try:
                res = {"ok": fn(*args)}
            except BaseException:
                res = {"err": traceback.format_exc()}
            data = json.dumps(res).encode()
            off = 0
            while off < len(data):
                off += os.write(w, data[off:])
            os.close(w)
            signal.alarm(0)
        except BaseException:
            code = 3
            try:
                traceback.print_exc()
            except BaseException:
                pass
        finally:
            os._exit(code)
    os.close(w)
    chunks = []
    deadline = time.monotonic() + timeout
    timed_out = False
    while True:
        left = deadline - time.monotonic()
        if left <= 0:
            timed_out = True
            break
        rl, _, _ = select.select([r], [], [], left)
        if not rl:
            timed_out = True
            break
        b = os.read(r, 1 << 16)
        if not b:
            break
        chunks.append(b)
    os.close(r)
    if timed_out:
        try:
            os.kill(pid, signal.SIGKILL)
        except ProcessLookupError:
            pass
        os.waitpid(pid, 0)
        raise HarnessError("child timed out after %.0fs in %s" % (timeout, getattr(fn, "__name__", fn)))
    _, status = os.waitpid(pid, 0)
    if status != 0:
        raise HarnessError("child exited with status %d in %s" % (status, getattr(fn, "__name__", fn)))
    try:
        res = json.loads(b"".join(chunks).decode())
    except Exception as e:
        raise HarnessError("child returned undecodable result: %r" % (e,))
    if "err" in res:
        raise HarnessError("child raised:\n" + res["err"])
    return res["ok"]


class Worker:
    def __init__(self, idx: int, handler: Callable[[Any], Any]):
        self.idx = idx
        c_r, c_w = os.pipe()  # commands parent -> worker
        r_r, r_w = os.pipe()  # results worker -> parent
        sys.stdout.flush()
        sys.stderr.flush()
        pid = os.fork()
        if pid == 0:
            try:
                os.close(c_w)
                os.close(r_r)
                signal.signal(signal.SIGINT, signal.SIG_IGN)
                self._loop(c_r, r_w, handler)
            finally:
                os._exit(0)
        os.close(c_r)
        os.close(r_w)
        self.pid = pid
        self.cmd = os.fdopen(c_w, "w")
        self.res_fd = r_r
        self.buf = b""
        self.busy = None

    @staticmethod
    def _loop(c_r: int, r_w: int, handler):
        cmd = os.fdopen(c_r, "r")
        out = os.fdopen(r_w, "w")
        for line in cmd:
            task = json.loads(line)
            if task is None:
                break
            try:
                res = {"task": task, "ok": handler(task)}
            except HarnessError as e:
                res = {"task": task, "harness_error": str(e)}
            except BaseException:
                res = {"task": task, "harness_error": traceback.format_exc()}
            out.write(json.dumps(res) + "\n")
            out.flush()

    def send(self, task) -> None:
        self.busy = task
        self.cmd.write(json.dumps(task) + "\n")
        self.cmd.flush()

    def close(self):
        try:
            self.cmd.write("null\n")
            self.cmd.flush()
            self.cmd.close()
        except Exception:
            pass
        try:
            os.close(self.res_fd)
        except OSError:
            pass
        try:
            os.kill(self.pid, signal.SIGKILL)
        except ProcessLookupError:
            pass
        try:
            os.waitpid(self.pid, 0)
        except ChildProcessError:
            pass


def n_workers() -> int:
    w = os.environ.get("VERIF_WORKERS")
    if w:
        return max(1, int(w))
    return max(1, min(16, os.cpu_count() or 1))


def pool_map(
    handler: Callable[[Any], Any],
    tasks: Iterable[Any],
    workers: Optional[int] = None,
    deadline: Optional[float] = None,
    stop: Optional[Callable[[], bool]] = None,
) -> Iterator[Dict[str, Any]]:
    """Yield {"task":…, "ok":…} / {"task":…, "harness_error":…} in completion order.

    ``tasks`` is consumed lazily; no new task is issued after ``deadline``
    (time.monotonic()) or once ``stop()`` is true; outstanding ones are awaited."""
    workers = workers or n_workers()
    it = iter(tasks)
    ws: List[Worker] = []
    try:
        for i in range(workers):
            ws.append(Worker(i, handler))
        idle = list(ws)
        busy: Dict[int, Worker] = {}
        exhausted = False
        while True:
            while idle and not exhausted:
                if (deadline is not None and time.monotonic() >= deadline) or (stop and stop()):
                    exhausted = True
                    break
                try:
                    t = next(it)
                except StopIteration:
                    exhausted = True
                    break
                w = idle.pop()
                w.send(t)
                busy[w.res_fd] = w
            if not busy:
                break
            rl, _, _ = select.select(list(busy), [], [], 5.0)
            for fd in rl:
                w = busy[fd]
                b = os.read(fd, 1 << 16)
                if not b:
                    del busy[fd]
                    yield {"task": w.busy, "harness_error": "worker %d died" % w.idx}
                    continue
                w.buf += b
                while b"\n" in w.buf:
                    line, w.buf = w.buf.split(b"\n", 1)
                    res = json.loads(line.decode())
                    w.busy = None
                    del busy[fd]
                    idle.append(w)
                    yield res
    finally:
        for w in ws:
            w.close()
