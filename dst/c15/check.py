"""C15 check driver: seeded per-object histories against the set model."""
import hashlib
import json
import time
from typing import Dict, List, Optional

from dst import boot, common, ddmin, proc
from dst.c15 import engine

PROP = "C15"

TIERS = {
    "quick": {"runs": 12000, "budget_s": 120},
    "thorough": {"runs": 600000, "budget_s": 900},
}


def evaluate(plan: dict) -> dict:
    r = proc.fork_call(engine.child_run, plan)
    st = r["stats"]
    h = hashlib.blake2b(json.dumps([r["violation"], st["states"], st["steps"]], sort_keys=True).encode(),
                        digest_size=8).hexdigest()
    return {"violation": r["violation"], "stats": st, "digest": h}


def fingerprint(r: dict) -> list:
    v = r.get("violation")
    return [r["digest"], v["class"] if v else None]


def handler(task: dict) -> dict:
    plan = engine.make_plan(task["seed"], task["tier"])
    out = evaluate(plan)
    out["index"] = task["index"]
    out["seed"] = task["seed"]
    out["case"] = plan["spec"]["case"]
    out["n_ops"] = len(plan["ops"])
    keep = out["violation"] is not None or task["index"] % 2003 == 0
    out["plan"] = plan if keep else None
    return out


def _same(v, cls):
    return v is not None and v["class"] == cls


def minimise(plan: dict, cls: str, budget_s: float = 60.0) -> dict:
    t0 = time.monotonic()

    def fails(ops):
        if time.monotonic() - t0 > budget_s:
            return False
        try:
            return _same(evaluate(dict(plan, ops=ops))["violation"], cls)
        except proc.HarnessError:
            return False

    # slots are positional: removing a creating op shifts later slots, which keeps the
    # history legal (ops on a missing slot are skipped) -- ddmin only needs "still fails"
    ops = ddmin.ddmin(plan["ops"], fails, budget=300)
    return dict(plan, ops=ops)


def signature(plan: dict, v: dict) -> dict:
    d = v.get("detail", {})
    return {"class": v["class"], "after": str(d.get("after", "")).split(":")[-1], "case": plan["spec"]["case"]}


def match_known(plan, v, known):
    sig = signature(plan, v)
    for k in known:
        if k.get("status") != "known":
            continue
        ks = k.get("signature", {})
        if all(sig.get(a) == b for a, b in ks.items()):
            return k
    return None


def replay(path: str) -> int:
    with open(path) as f:
        doc = json.load(f)
    r = evaluate(doc["plan"])
    if r["violation"] is not None:
        print("replayed: class=%s" % r["violation"]["class"])
        print(json.dumps(r["violation"])[:1500])
        print("VIOLATION property=%s replay=%s" % (PROP, path))
        return 1
    print("replay: no violation")
    return 0


class Agg:
    def __init__(self):
        self.runs = 0
        self.steps = 0
        self.checks = 0
        self.skipped = 0
        self.states = set()
        self.kinds: Dict[str, int] = {}
        self.cases: Dict[str, int] = {}
        self.samples = []
        self.harness_errors: List[str] = []

    def add(self, r):
        self.runs += 1
        st = r["stats"]
        self.steps += st["steps"]
        self.checks += st["checks"]
        self.skipped += st["skipped"]
        self.states.update(st["states"])
        for k, v in st["kinds"].items():
            self.kinds[k] = self.kinds.get(k, 0) + v
        c = str(r["case"])
        self.cases[c] = self.cases.get(c, 0) + 1
        if r.get("plan") and len(self.samples) < 3 and r["violation"] is None:
            p = r["plan"]
            self.samples.append({"run": r["index"], "seed": r["seed"], "class_source": engine.render(p["spec"]),
                                 "ops": p["ops"]})


def main(tier: str, replay_path: Optional[str] = None, runs: Optional[int] = None,
         budget_s: Optional[float] = None, start: int = 0) -> int:
    timer = common.Timer()
    boot.load_apischema()
    if replay_path:
        return replay(replay_path)
    cfg = TIERS[tier]
    n = runs if runs is not None else common.env_int("VERIF_RUNS", cfg["runs"])
    budget = budget_s if budget_s is not None else common.env_float("VERIF_BUDGET_S", cfg["budget_s"])
    batch = common.batch_seed()
    known = common.load_known(PROP)
    deadline = time.monotonic() + budget
    tasks = ({"index": i, "seed": engine.run_seed(PROP, batch, i), "tier": tier} for i in range(start, start + n))
    agg = Agg()
    violations = []
    for res in proc.pool_map(handler, tasks, deadline=deadline, stop=lambda: len(violations) >= 30):
        if "harness_error" in res:
            agg.harness_errors.append(res["harness_error"][-800:])
            continue
        r = res["ok"]
        agg.add(r)
        if r["violation"] is not None:
            violations.append(r)
    rc = 0
    reported = 0
    seen = set()
    for k in known:
        if k.get("status") == "known" and k.get("replay"):
            import os

            with open(os.path.join(common.VERIF, k["replay"])) as f:
                doc = json.load(f)
            if evaluate(doc["plan"])["violation"] is not None:
                print("KNOWN-FINDING: property=%s %s" % (PROP, k["what"]))
    for r in sorted(violations, key=lambda x: x["index"]):
        plan, v = r["plan"], r["violation"]
        rr = evaluate(plan)
        if not _same(rr["violation"], v["class"]):
            agg.harness_errors.append("violation at run %d did not reproduce" % r["index"])
            continue
        if len(seen) >= 5:
            break
        m = minimise(plan, v["class"], budget_s=common.env_float("VERIF_MINIMISE_S", 40.0))
        fin = evaluate(m)
        if fin["violation"] is None:
            m, fin = plan, rr
        if match_known(m, fin["violation"], known) is not None:
            continue
        sig = json.dumps(signature(m, fin["violation"]), sort_keys=True)
        if sig in seen:
            continue
        seen.add(sig)
        doc = {"property": PROP, "tree": boot.tree_fingerprint(), "batch_seed": batch, "run": r["index"],
               "plan": m, "class_source": engine.render(m["spec"]), "original_length": len(plan["ops"]),
               "violation": fin["violation"], "how": "./check C15 --replay <this file>"}
        path = common.write_replay(PROP, "%d-%d" % (batch, r["index"]), doc)
        common.log("violation: run %d class=%s minimised %d -> %d ops" % (
            r["index"], v["class"], len(plan["ops"]), len(m["ops"])))
        common.log(engine.render(m["spec"]))
        common.log(json.dumps(m["ops"]))
        common.log(json.dumps(fin["violation"])[:1000])
        print("VIOLATION property=%s replay=%s" % (PROP, path))
        reported += 1
        rc = 1
    wall = timer.elapsed()
    cov = {
        "evaluations": agg.checks,
        "distinct_nontrivial": len(agg.states),
        "rule": (
            "one evaluation = one comparison of fields_set / is_set / serialize(exclude_unset in {default, True, "
            "False}) of a live instance with the set model, made after every operation of a history; "
            "distinct_nontrivial = distinct (class shape, tracked set, don't-care set) states of the model reached "
            "and checked"
        ),
        "samples": agg.samples,
        "histories": agg.runs,
        "histories_requested": n,
        "budget_s": budget,
        "histories_per_hour": int(agg.runs / wall * 3600) if wall > 0 else 0,
        "operations": agg.steps,
        "operations_by_kind": agg.kinds,
        "operations_skipped_not_applicable": agg.skipped,
        "class_family_cases": {
            "1 single decorated": agg.cases.get("1", 0),
            "2 decorated subclass of decorated base": agg.cases.get("2", 0),
            "3 decorated subclass of undecorated base": agg.cases.get("3", 0),
            "4 undecorated subclass of decorated base": agg.cases.get("4", 0),
        },
        "simulated_time": "none",
        "faults": "none exist for this surface (no I/O, no concurrency, no user callback on the tracking path); "
                  "this is the history facet of the technique only",
        "components": {"real": ["apischema.fields", "apischema.dataclasses.replace", "apischema.serialize / deserialize"],
                       "stub": ["generated dataclass families", "set-valued reference model (dst/c15/engine.py)"]},
        "harness_errors": len(agg.harness_errors),
        "tree": boot.tree_fingerprint(),
    }
    common.write_evidence(
        PROP, tier, batch, "exploration", cov, wall, reported,
        assumptions=[
            "the model encodes only documented behaviour; fields assigned in __post_init__, the state right after "
            "constructing an undecorated subclass of a decorated base, previously-set fields across a second __init__ "
            "and InitVar names inside the set are don't-care",
            "sampling, not enumeration",
        ],
    )
    if agg.harness_errors:
        common.log("HARNESS ERRORS (%d), first: %s" % (len(agg.harness_errors), agg.harness_errors[0]))
        if rc == 0:
            return 2
    common.log("C15 %s: %d histories, %d ops, %d checks, %d states, %.1fs, violations=%d" % (
        tier, agg.runs, agg.steps, agg.checks, len(agg.states), wall, reported))
    return rc
