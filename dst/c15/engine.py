"""C15 -- field-set tracking: generated with_fields_set class families, per-object
operation histories, set-valued reference model stepped alongside.

A *plan* is JSON: {"seed":…, "spec": class-family spec, "ops": [...]}; the class source is
a pure function of the spec (``render``), so a replay file carries both.

The model (``Model``) is written from the documentation only
(docs/de_serialization.md "Fields set" / "Exclude unset fields", examples/fields_set.py,
exclude_unset.py, default_as_set.py) and never looks at apischema's bookkeeping:

* construct / deserialize of a *decorated* class: names passed (keys present, through
  aliases) minus InitVars, plus default_as_set and init=False fields;
* attribute assignment adds; set_fields adds or, with overwrite, replaces; unset_fields
  removes; apischema.dataclasses.replace = source set | changed fields;
* serialize(exclude_unset=True / default) emits exactly the serialisable fields in the
  set; exclude_unset=False emits all of them.

Where the documentation is silent the oracle is deliberately weakened ("don't care"):
fields assigned inside __post_init__, the state right after constructing an *undecorated*
subclass of a decorated base (adopted as observed), previously-set fields across a second
__init__ call, and InitVar names inside the set.
"""
import random
from typing import Any, Dict, List, Optional, Set

from dst.c20.engine import run_seed  # noqa: F401

KINDS = ["req", "dflt", "fact", "das", "noinit", "initvar", "initvar_d", "nested"]
# default value by field kind (for exclude_defaults); required kinds have none
DEFAULTS_BY_KIND = {"dflt": 0, "fact": 7, "das": None, "noinit": 5, "noinit_fact": 6, "kwonly": 0, "nested": None}


# ------------------------------------------------------------------ spec generation


def gen_spec(rng: random.Random) -> dict:
    case = rng.choice([1, 1, 1, 2, 2, 3, 4, 5, 6])
    frozen = case != 5 and rng.random() < 0.15
    counter = [0]
    used_agg = set()

    def fname():
        counter[0] += 1
        return "f%d" % counter[0]

    def gen_fields(n: int, allow_required: bool, allow_nested: bool) -> List[dict]:
        fs = []
        kinds_pool = ["dflt", "dflt", "fact", "das", "noinit", "noinit_fact", "initvar_d", "kwonly", "kwreq"]
        if allow_nested:
            kinds_pool.append("nested")
        for agg in ("props", "flat"):
            if agg not in used_agg and rng.random() < 0.25:
                kinds_pool.append(agg)
        n_req = rng.randint(0, min(2, n)) if allow_required else 0
        for i in range(n):
            if i < n_req:
                kind = rng.choice(["req", "req", "initvar"])
            else:
                kind = rng.choice(kinds_pool)
            if kind in ("props", "flat"):
                if kind in used_agg:
                    kind = "dflt"
                else:
                    used_agg.add(kind)
            f = {"name": fname(), "kind": kind, "alias": None}
            if kind not in ("initvar", "initvar_d", "props", "flat") and rng.random() < 0.25:
                f["alias"] = f["name"].upper() + "x"
            fs.append(f)
        return fs

    classes = []
    if case == 6:
        # diamond: K0 <- K1, K2 <- K3; dataclass field order of K3 follows the reversed MRO
        dec = [True, rng.random() < 0.7, rng.random() < 0.7, True]
        classes.append({"name": "K0", "base": None, "decorated": dec[0], "fields": gen_fields(rng.randint(1, 2), True, False)})
        base_has_default = any(f["kind"] not in ("req", "initvar") for f in classes[0]["fields"])
        classes.append({"name": "K1", "base": "K0", "decorated": dec[1],
                        "fields": gen_fields(rng.randint(1, 2), False, False)})
        classes.append({"name": "K2", "base": "K0", "decorated": dec[2],
                        "fields": gen_fields(rng.randint(1, 2), False, False)})
        classes.append({"name": "K3", "base": "K1", "bases": ["K1", "K2"], "decorated": dec[3],
                        "fields": gen_fields(rng.randint(0, 2), False, False)})
    elif case == 1:
        classes.append({"name": "K0", "base": None, "decorated": True,
                        "fields": gen_fields(rng.randint(1, 5), True, True)})
    else:
        base_dec = case in (2, 4, 5)
        sub_dec = case in (2, 3)
        bf = gen_fields(rng.randint(1, 3), True, False)
        base_has_default = any(f["kind"] not in ("req", "initvar") for f in bf)
        classes.append({"name": "K0", "base": None, "decorated": base_dec, "fields": bf})
        if case == 5:
            # undecorated @dataclass(init=False) child with a hand-written __init__ that assigns
            # its own fields *before* calling the (patched) base __init__
            own = [{"name": fname(), "kind": "dflt", "alias": None} for _ in range(rng.randint(1, 2))]
            classes.append({"name": "K1", "base": "K0", "decorated": False, "fields": own, "handwritten": True})
        else:
            classes.append({"name": "K1", "base": "K0", "decorated": sub_dec,
                            "fields": gen_fields(rng.randint(0, 3), not base_has_default, sub_dec)})
    # __post_init__ on the most derived class
    top = classes[-1]
    allf = [f for c in classes for f in c["fields"]]
    has_iv = any(f["kind"] in ("initvar", "initvar_d") for f in allf)
    assignable = [f["name"] for f in allf if f["kind"] in ("dflt", "fact", "das", "noinit", "noinit_fact", "req")]
    post = None
    if top.get("handwritten"):
        top = classes[0]  # __post_init__ (if any) belongs to the dataclass-generated __init__ of K0
    if has_iv or rng.random() < 0.3:
        assigns = []
        if assignable and rng.random() < 0.5:
            assigns = rng.sample(assignable, 1)
        post = {"assigns": assigns}
    for c in classes:
        c["post_init"] = None
    if frozen and post is not None:
        post["assigns"] = []  # assignments raise on a frozen instance
    top["post_init"] = post
    return {"case": case, "classes": classes, "frozen": bool(frozen)}


def all_fields(spec: dict, cname: str) -> List[dict]:
    by = {c["name"]: c for c in spec["classes"]}
    if by[cname].get("bases"):
        # K3(K1, K2): MRO K3, K1, K2, K0 -> dataclass collects fields over the reversed MRO
        out = []
        for n in ("K0", "K2", "K1", cname):
            out.extend(by[n]["fields"])
        return out
    chain = []
    c = by[cname]
    while c is not None:
        chain.append(c)
        c = by[c["base"]] if c["base"] else None
    out = []
    for c in reversed(chain):
        out.extend(c["fields"])
    return out


def render(spec: dict) -> str:
    lines = [
        "from dataclasses import dataclass, field, InitVar",
        "from typing import Optional, List",
        "from apischema import alias",
        "from apischema.fields import with_fields_set",
        "from apischema.metadata import default_as_set, flatten, properties",
        "from typing import Dict",
        "",
        "@dataclass",
        "class Inner:",
        "    i: int = 0",
        "",
    ]
    for c in spec["classes"]:
        if c["decorated"]:
            lines.append("@with_fields_set")
        fz = "frozen=True" if spec.get("frozen") else ""
        lines.append("@dataclass(init=False)" if c.get("handwritten") else "@dataclass(%s)" % fz)
        bases = ", ".join(c["bases"]) if c.get("bases") else c["base"]
        lines.append("class %s%s:" % (c["name"], "(%s)" % bases if bases else ""))
        body = []
        for f in c["fields"]:
            md = []
            if f["alias"]:
                md.append("alias(%r)" % f["alias"])
            k = f["kind"]
            if k == "das":
                md.append("default_as_set")
            mds = (", metadata=" + " | ".join(md)) if md else ""
            n = f["name"]
            if k == "req":
                body.append("%s: int%s" % (n, " = field(%s)" % mds[2:] if md else ""))
            elif k == "dflt":
                body.append("%s: int = field(default=0%s)" % (n, mds))
            elif k == "fact":
                body.append("%s: int = field(default_factory=lambda: 7%s)" % (n, mds))
            elif k == "das":
                body.append("%s: Optional[int] = field(default=None%s)" % (n, mds))
            elif k == "noinit":
                body.append("%s: int = field(default=5, init=False%s)" % (n, mds))
            elif k == "noinit_fact":
                body.append("%s: int = field(default_factory=lambda: 6, init=False%s)" % (n, mds))
            elif k == "initvar":
                body.append("%s: InitVar[int]" % n)
            elif k == "initvar_d":
                body.append("%s: InitVar[int] = 3" % n)
            elif k == "nested":
                body.append("%s: Optional[%r] = field(default=None%s)" % (n, c["name"], mds))
            elif k == "props":
                body.append("%s: Dict[str, int] = field(default_factory=dict, metadata=properties)" % n)
            elif k == "flat":
                body.append("%s: Inner = field(default_factory=Inner, metadata=flatten)" % n)
            elif k == "kwonly":
                body.append("%s: int = field(default=0, kw_only=True%s)" % (n, mds))
            elif k == "kwreq":
                body.append("%s: int = field(kw_only=True%s)" % (n, mds))
        if c.get("handwritten"):
            body.append("def __init__(self, *args, **kw):")
            for f in c["fields"]:
                body.append("    self.%s = kw.pop(%r, 0)" % (f["name"], f["name"]))
            body.append("    super().__init__(*args, **kw)")
        if c.get("post_init") is not None:
            ivs = [f["name"] for f in all_fields(spec, c["name"]) if f["kind"] in ("initvar", "initvar_d")]
            body.append("def __post_init__(self%s):" % "".join(", " + i for i in ivs))
            stm = ["    self.%s = 100" % a for a in c["post_init"]["assigns"]] or ["    pass"]
            body.extend(stm)
        if not body:
            body = ["pass"]
        lines.extend("    " + b for b in body)
        lines.append("")
    return "\n".join(lines)


# ------------------------------------------------------------------ the reference model


class Shape:
    def __init__(self, spec: dict, cname: str):
        self.spec = spec
        self.name = cname
        by = {c["name"]: c for c in spec["classes"]}
        self.decorated = by[cname]["decorated"]
        self.fields = all_fields(spec, cname)
        self.by_name = {f["name"]: f for f in self.fields}
        self.initvars = {f["name"] for f in self.fields if f["kind"] in ("initvar", "initvar_d")}
        self.real = [f["name"] for f in self.fields if f["name"] not in self.initvars]
        self.handwritten = bool(by[cname].get("handwritten"))
        self.own = [f["name"] for f in by[cname]["fields"]] if self.handwritten else []
        kw_kinds = ("kwonly", "kwreq")
        # positional order of the generated __init__: ordinary parameters first, keyword-only after
        self.pos_params = [f["name"] for f in self.fields
                           if f["kind"] not in ("noinit", "noinit_fact") and f["kind"] not in kw_kinds and f["name"] not in self.own]
        self.init_params = self.pos_params + [f["name"] for f in self.fields if f["kind"] in kw_kinds] + self.own
        self.required = [f["name"] for f in self.fields if f["kind"] in ("req", "initvar", "kwreq")]
        self.always = {f["name"] for f in self.fields if f["kind"] in ("das", "noinit", "noinit_fact")}
        self.nested = {f["name"] for f in self.fields if f["kind"] == "nested"}
        self.aggregate = {f["name"] for f in self.fields if f["kind"] in ("props", "flat")}
        # the __post_init__ that runs for this class: its own, or the inherited one when the class
        # keeps (or delegates to) the base's generated __init__
        pi = None
        c_ = by[cname]
        while c_ is not None and pi is None:
            pi = c_.get("post_init")
            c_ = by[c_["base"]] if c_["base"] else None
        self.post_assigns = set(pi["assigns"]) if pi else set()
        # an undecorated class is "supported" (tracked) only through a decorated base
        chain = []
        todo = [cname]
        while todo:
            c = by[todo.pop()]
            chain.append(c)
            todo.extend(c.get("bases") or ([c["base"]] if c["base"] else []))
        self.tracked = any(c["decorated"] for c in chain)
        self.frozen = bool(spec.get("frozen"))

    def alias(self, n: str) -> str:
        return self.by_name[n]["alias"] or n


class Inst:
    __slots__ = ("shape", "set", "dontcare", "obj")

    def __init__(self, shape: Shape, s: Set[str], dontcare: Set[str], obj: Any):
        self.shape = shape
        self.set = s
        self.dontcare = dontcare
        self.obj = obj


class Mismatch(Exception):
    def __init__(self, kind: str, detail: dict):
        self.kind = kind
        self.detail = detail


# ------------------------------------------------------------------ op generation


def gen_ops(rng: random.Random, spec: dict, n: int) -> List[list]:
    names = [c["name"] for c in spec["classes"]]
    shapes = {n_: Shape(spec, n_) for n_ in names}
    tracked = [n_ for n_ in names if shapes[n_].tracked]
    ops: List[list] = []
    n_slots = 0

    def values(sh: Shape, subset: List[str], allow_nested: bool):
        d = {}
        for f in subset:
            if f in sh.nested:
                if allow_nested and rng.random() < 0.6:
                    inner_fields = [x for x in sh.init_params if x not in sh.nested and rng.random() < 0.5]
                    inner = {x: rng.randint(0, 9) for x in set(inner_fields) | set(sh.required)}
                    d[f] = {"$nested": inner}
                else:
                    d[f] = None
            elif sh.by_name[f]["kind"] == "props":
                d[f] = {"$props": {"zz%d" % rng.randint(0, 3): rng.randint(0, 9)}}
            elif sh.by_name[f]["kind"] == "flat":
                d[f] = {"$inner": rng.randint(1, 9)}
            elif sh.by_name[f]["kind"] == "das":
                d[f] = rng.choice([None, 1, 2])
            else:
                d[f] = rng.randint(0, 9)
        return d

    for _ in range(n):
        r = rng.random()
        if n_slots == 0 or r < 0.18:
            cn = rng.choice(tracked)
            sh = shapes[cn]
            opt = [p for p in sh.init_params if p not in sh.required]
            chosen = set(sh.required) | {p for p in opt if rng.random() < 0.45}
            if rng.random() < 0.5:
                # positional prefix
                npos = rng.randint(0, len(sh.pos_params))
                pos = sh.pos_params[:npos]
                kw = [p for p in sh.init_params if p not in pos and p in chosen]
                pv = values(sh, pos, False)
                ops.append(["new", cn, [pv[p] for p in pos], values(sh, kw, False)])
            else:
                ops.append(["des", cn, values(sh, [p for p in sh.init_params if p in chosen], True)])
            n_slots += 1
            continue
        slot = rng.randrange(n_slots)
        r = rng.random()
        if r < 0.25:
            ops.append(["assign", slot, rng.randrange(8), rng.randint(10, 19)])
        elif r < 0.45:
            ops.append(["set", slot, [rng.randrange(8) for _ in range(rng.randint(1, 3))],
                        rng.random() < 0.35, rng.random() < 0.3])
        elif r < 0.60:
            ops.append(["unset", slot, [rng.randrange(8) for _ in range(rng.randint(1, 3))], rng.random() < 0.3])
        elif r < 0.75:
            ops.append(["replace", slot, [rng.randrange(8) for _ in range(rng.randint(0, 2))], rng.randint(20, 29)])
            n_slots += 1
        elif r < 0.82:
            ops.append(["reinit", slot, [rng.randrange(8) for _ in range(rng.randint(0, 3))], rng.randint(30, 39)])
        elif r < 0.88:
            ops.append(["set_extra", slot, "not_a_field"])
        else:
            ops.append(["nest", slot, rng.randrange(max(1, n_slots))])
    return ops


def make_plan(seed: int, tier: str = "quick") -> dict:
    rng = random.Random(seed)
    spec = gen_spec(rng)
    n = rng.choice([3, 5, 8, 12, 18, 25])
    return {"seed": seed, "spec": spec, "ops": gen_ops(rng, spec, n)}


# ------------------------------------------------------------------ execution against apischema


def child_run(plan: dict) -> dict:
    """Execute the history on real apischema objects with the model alongside."""
    import apischema
    from apischema.dataclasses import replace as ap_replace
    from apischema.fields import fields_set, is_set, set_fields, unset_fields
    import dataclasses

    spec = plan["spec"]
    import sys
    import types

    mod = types.ModuleType("c15gen")
    sys.modules["c15gen"] = mod
    ns: Dict[str, Any] = mod.__dict__
    exec(compile(render(spec), "<c15-generated>", "exec"), ns)
    shapes = {c["name"]: Shape(spec, c["name"]) for c in spec["classes"]}
    slots: List[Inst] = []
    by_id: Dict[int, Inst] = {}
    stats = {"steps": 0, "checks": 0, "skipped": 0, "states": set(), "kinds": {}}

    def register(inst: Inst):
        by_id[id(inst.obj)] = inst

    def model_construct(sh: Shape, passed: Set[str], obj) -> Inst:
        if sh.decorated:
            s = (set(passed) - sh.initvars) | sh.always
            inst = Inst(sh, s, set(sh.post_assigns), obj)
        elif sh.handwritten:
            # own fields are assigned before the patched base __init__ runs: the ones passed must
            # be in the set (attribute assignment adds; keys present are set), the defaulted ones
            # are don't-care; the base part follows the constructor rule
            own = set(sh.own)
            s = ((set(passed) - own) - sh.initvars) | sh.always | (set(passed) & own)
            inst = Inst(sh, s, set(sh.post_assigns) | (own - set(passed)), obj)
        else:
            # undecorated subclass of a decorated base: documentation silent -> adopt
            inst = Inst(sh, set(fields_set(obj)), set(), obj)
        register(inst)
        return inst

    def build_nested(sh: Shape, d: dict):
        """python-side construction of a nested instance from {"$nested": {...}}"""
        cls = ns[sh.name]
        o = cls(**d)
        model_construct(sh, set(d), o)
        return o

    def pyval(sh: Shape, v):
        if isinstance(v, dict) and "$nested" in v:
            return build_nested(sh, v["$nested"])
        if isinstance(v, dict) and "$props" in v:
            return dict(v["$props"])
        if isinstance(v, dict) and "$inner" in v:
            return ns["Inner"](v["$inner"])
        return v

    def to_data(sh: Shape, d: dict) -> dict:
        out = {}
        for k, v in d.items():
            key = sh.by_name[k]["alias"] or k
            if isinstance(v, dict) and "$nested" in v:
                out[key] = to_data(sh, v["$nested"])
            elif isinstance(v, dict) and "$props" in v:
                out.update(v["$props"])
            elif isinstance(v, dict) and "$inner" in v:
                out["i"] = v["$inner"]
            else:
                out[key] = v
        return out

    def register_deserialized(sh: Shape, obj, d: dict):
        inst = model_construct(sh, set(d), obj)
        # aggregate fields have no key of their own ("fields whose key was present" is silent
        # about them; today they are always handed to the constructor): don't-care after deserialize
        inst.dontcare |= sh.aggregate
        for k, v in d.items():
            if isinstance(v, dict) and "$nested" in v:
                register_deserialized(sh, getattr(obj, k), v["$nested"])
        return inst

    def pick_name(sh: Shape, idx: int, real_only=True) -> str:
        pool_ = sh.real if real_only else [f["name"] for f in sh.fields]
        return pool_[idx % len(pool_)]

    def expected_ser(inst: Inst, exclude_unset: bool, depth=0):
        """(expected dict, don't-care alias set)"""
        sh = inst.shape
        out = {}
        dc = set()
        for n in sh.real:
            a = sh.alias(n)
            if exclude_unset and n in inst.dontcare:
                if n in sh.aggregate:
                    v_ = getattr(inst.obj, n)
                    dc.update(v_ if isinstance(v_, dict) else ["i"])
                else:
                    dc.add(a)
                continue
            if exclude_unset and n not in inst.set:
                continue
            v = getattr(inst.obj, n)
            if n in sh.aggregate:
                merged = dict(v) if isinstance(v, dict) else {"i": getattr(v, "i", None)}
                out.update(merged)
                continue
            if n in sh.nested and v is not None:
                sub = by_id.get(id(v))
                if sub is None:
                    dc.add(a)
                    continue
                e, sdc = expected_ser(sub, exclude_unset, depth + 1)
                if sdc:
                    dc.add(a)
                    continue
                out[a] = e
            else:
                out[a] = v
        return out, dc

    def _upper_keys(d):
        return {k.upper(): (_upper_keys(v) if isinstance(v, dict) else v) for k, v in d.items()}

    def _drop(exp, inst, pred):
        sh = inst.shape
        out = dict(exp)
        for n in sh.real:
            a = sh.alias(n)
            if a in out and pred(n, getattr(inst.obj, n)):
                del out[a]
        return out

    def check(inst: Inst, what: str):
        sh = inst.shape
        actual = set(fields_set(inst.obj))
        ignore = inst.dontcare | sh.initvars
        stats["checks"] += 1
        if actual - ignore != inst.set - ignore:
            raise Mismatch("fields_set", {"after": what, "class": sh.name, "expected": sorted(inst.set - ignore),
                                          "got": sorted(actual - ignore), "dontcare": sorted(ignore)})
        flags = is_set(inst.obj)
        for n in sh.real:
            if n in ignore:
                continue
            if bool(getattr(flags, n)) != (n in inst.set):
                raise Mismatch("is_set", {"after": what, "field": n, "expected": n in inst.set})
        cls = ns[sh.name]
        for label, kw, eu in (("default", {}, True), ("True", {"exclude_unset": True}, True),
                              ("False", {"exclude_unset": False}, False)):
            exp, dc = expected_ser(inst, eu)
            got = apischema.serialize(cls, inst.obj, **kw)
            stats["checks"] += 1
            g = {k: v for k, v in got.items() if k not in dc}
            e = {k: v for k, v in exp.items() if k not in dc}
            if g != e:
                raise Mismatch("serialize", {"after": what, "exclude_unset": label, "class": sh.name,
                                             "expected": e, "got": g, "dontcare": sorted(dc)})
        # the same through the other ways of calling serialize (rotating, to keep runs cheap):
        # untyped / Any, inside a list, with an aliaser, with exclude_none / exclude_defaults
        variant = stats["checks"] % (3 if sh.aggregate else 6)
        exp, dc = expected_ser(inst, True)
        if variant == 0:
            got = apischema.serialize(inst.obj)
            label = "untyped"
        elif variant == 1:
            from typing import Any as _Any

            got = apischema.serialize(_Any, inst.obj)
            label = "Any"
        elif variant == 2:
            from typing import List as _List

            got = apischema.serialize(_List[cls], [inst.obj, inst.obj])
            if not (isinstance(got, list) and len(got) == 2 and got[0] == got[1]):
                raise Mismatch("serialize", {"after": what, "variant": "list", "got": repr(got)[:300]})
            got = got[0]
            label = "list"
        elif variant == 3:
            got = apischema.serialize(cls, inst.obj, aliaser=str.upper)
            exp, dc = _upper_keys(exp), {k.upper() for k in dc}
            label = "aliaser"
        elif variant == 4:
            got = apischema.serialize(cls, inst.obj, exclude_none=True)
            exp = _drop(exp, inst, lambda n, v: v is None and sh.by_name[n]["kind"] in ("das", "nested"))
            label = "exclude_none"
        else:
            got = apischema.serialize(cls, inst.obj, exclude_defaults=True)
            exp = _drop(exp, inst, lambda n, v: sh.by_name[n]["kind"] in DEFAULTS_BY_KIND
                        and v == DEFAULTS_BY_KIND[sh.by_name[n]["kind"]])
            label = "exclude_defaults"
        stats["checks"] += 1
        if variant in (4, 5):
            # nested objects are filtered by the same option: compare the top level only
            dc = dc | {sh.alias(n) for n in sh.nested}
        g = {k: v for k, v in got.items() if k not in dc}
        e = {k: v for k, v in exp.items() if k not in dc}
        if g != e:
            raise Mismatch("serialize", {"after": what, "variant": label, "class": sh.name,
                                         "expected": e, "got": g, "dontcare": sorted(dc)})
        stats["states"].add((sh.name, tuple(sorted(inst.set - ignore)), tuple(sorted(inst.dontcare))))

    try:
        for i, op in enumerate(plan["ops"]):
            kind = op[0]
            stats["steps"] += 1
            stats["kinds"][kind] = stats["kinds"].get(kind, 0) + 1
            what = "%d:%s" % (i, kind)
            if kind == "new":
                _, cn, pos, kw = op
                sh = shapes[cn]
                cls = ns[cn]
                kwv = {k: pyval(sh, v) for k, v in kw.items()}
                pos = [pyval(sh, v) for v in pos]
                obj = cls(*pos, **kwv)
                passed = set(sh.pos_params[: len(pos)]) | set(kw)
                inst = model_construct(sh, passed, obj)
                slots.append(inst)
                check(inst, what)
                continue
            if kind == "des":
                _, cn, d = op
                sh = shapes[cn]
                obj = apischema.deserialize(ns[cn], to_data(sh, d))
                inst = register_deserialized(sh, obj, d)
                slots.append(inst)
                check(inst, what)
                continue
            slot = op[1]
            if slot >= len(slots):
                stats["skipped"] += 1
                continue
            inst = slots[slot]
            sh = inst.shape
            if not sh.real and kind in ("assign", "set", "unset", "replace", "reinit"):
                stats["skipped"] += 1
                continue
            if sh.frozen and kind in ("assign", "nest"):
                stats["skipped"] += 1
                continue
            if kind == "assign":
                n = pick_name(sh, op[2])
                if n in sh.nested:
                    stats["skipped"] += 1
                    continue
                v = op[3]
                if sh.by_name[n]["kind"] == "props":
                    v = {"zz9": v}
                elif sh.by_name[n]["kind"] == "flat":
                    v = ns["Inner"](v)
                setattr(inst.obj, n, v)
                inst.set.add(n)
                inst.dontcare.discard(n)
            elif kind == "set":
                names = [pick_name(sh, k) for k in op[2]]
                args = [_field_obj(dataclasses, ns[sh.name], n) if op[4] else n for n in names]
                r = set_fields(inst.obj, *args, overwrite=op[3])
                if r is not inst.obj:
                    raise Mismatch("api", {"after": what, "detail": "set_fields must return its argument"})
                if op[3]:
                    inst.set = set(names)
                    inst.dontcare = set()
                else:
                    inst.set |= set(names)
                    inst.dontcare -= set(names)
            elif kind == "unset":
                names = [pick_name(sh, k) for k in op[2]]
                args = [_field_obj(dataclasses, ns[sh.name], n) if op[3] else n for n in names]
                unset_fields(inst.obj, *args)
                inst.set -= set(names)
                inst.dontcare -= set(names)
            elif kind == "set_extra":
                set_fields(inst.obj, op[2])
                inst.set.add(op[2])
            elif kind == "nest":
                if not sh.nested or op[2] >= len(slots) or slots[op[2]].shape.name != sh.name or op[2] == slot:
                    stats["skipped"] += 1
                    continue
                n = sorted(sh.nested)[0]
                # never build a cycle (serialising cyclic data is an input problem, not C15)
                cur, cyc = slots[op[2]].obj, False
                for _ in range(64):
                    if cur is inst.obj:
                        cyc = True
                        break
                    nxt = [getattr(cur, x) for x in sorted(sh.nested) if getattr(cur, x, None) is not None]
                    if not nxt:
                        break
                    cur = nxt[0]
                else:
                    cyc = True
                if cyc or len(sh.nested) > 1:
                    stats["skipped"] += 1
                    continue
                setattr(inst.obj, n, slots[op[2]].obj)
                inst.set.add(n)
                inst.dontcare.discard(n)
            elif kind == "replace":
                changes = {}
                for k in op[2]:
                    n = pick_name(sh, k)
                    if sh.by_name[n]["kind"] in ("noinit", "noinit_fact") or n in sh.nested or n in sh.aggregate:
                        continue
                    changes[n] = op[3]
                for iv in sh.initvars:
                    if sh.by_name[iv]["kind"] == "initvar":
                        changes[iv] = 1  # required InitVar must be given again
                new_obj = ap_replace(inst.obj, **changes)
                ch = set(changes) - sh.initvars
                # post-init assignments run again on the new object; a don't-care field
                # becomes exact when named in the source set or the changes (overwrite=True)
                new = Inst(sh, set(inst.set) | ch, set(inst.dontcare) - ch, new_obj)
                register(new)
                slots.append(new)
                check(new, what)
            elif kind == "reinit":
                kw = {}
                for k in op[2]:
                    n = pick_name(sh, k, real_only=False)
                    if sh.by_name[n]["kind"] in ("noinit", "noinit_fact") or n in sh.nested or n in sh.aggregate:
                        continue
                    kw[n] = op[3]
                for r_ in sh.required:
                    kw.setdefault(r_, op[3])
                prev = set(inst.set)
                inst.obj.__init__(**kw)
                if sh.decorated and not sh.handwritten:
                    passed = (set(kw) - sh.initvars) | sh.always
                    # previously-set fields across a second __init__: documentation silent
                    inst.dontcare = (inst.dontcare | (prev - passed) | sh.post_assigns) - set()
                    inst.set = passed | prev
                else:
                    inst.set = set(fields_set(inst.obj))
                    inst.dontcare = set()
            check(inst, what)
            # every other live instance too: an operation on one object must not leak into
            # another one (e.g. a copy sharing its source's set)
            for other in slots[-6:]:
                if other is not inst:
                    check(other, what + ":other")
    except Mismatch as m:
        return {"violation": {"class": "model-mismatch:" + m.kind, "detail": m.detail}, "stats": _st(stats)}
    except Exception as e:  # harness or apischema raising where the model expects success
        import traceback

        return {"violation": {"class": "unexpected-exception:" + type(e).__name__,
                              "detail": {"msg": str(e)[:300], "tb": traceback.format_exc()[-1500:]}},
                "stats": _st(stats)}
    return {"violation": None, "stats": _st(stats)}


def _field_obj(dataclasses, cls, name):
    for f in dataclasses.fields(cls):
        if f.name == name:
            return f
    return name


def _st(stats: dict) -> dict:
    s = dict(stats)
    s["states"] = sorted("%s|%s|%s" % (a, ",".join(b), ",".join(c)) for a, b, c in stats["states"])
    return s
