"""C09 catalog: probe types, pre-built configuration objects, configuration
operations and observations -- everything addressed by name so that a history is JSON.

Imported once in the zygote.  Every object a configuration operation installs
(aliasers, conversions, Schemas, Discriminators, field lists, validators, …) is built
*here*, at import, so that the history process and its cold references install the very
same objects (same ``id``, same hash); only their registration is replayed.

Nothing here may fill an apischema cache or change the configuration.

A configuration operation is ``["cfg", name]``; an observation ``["obs", name]``.
``TAGS`` relate them: an observation is *related* to an operation when they share a tag
(the systematic prefix of the check runs observe/change/observe for every related pair
and measures whether the pair is actually sensitive).
"""
import re
import uuid
from dataclasses import dataclass, field
from enum import Enum
from typing import Any, Callable, Dict, Generic, List, Literal, NewType, Optional, Sequence, Tuple, TypeVar, Union

import apischema
from apischema import (
    ValidationError,
    alias,
    dependent_required,
    deserializer,
    discriminator,
    order,
    schema,
    serialized,
    serializer,
    settings,
    type_name,
    validator,
)
from apischema import cache as ap_cache
from apischema.conversions import Conversion, reset_deserializers, reset_serializer
from apischema.fields import with_fields_set
from apischema.metadata import flatten
from apischema.typing import Annotated
from apischema.json_schema import JsonSchemaVersion
from apischema.objects import ObjectField, object_fields, object_serialization, set_object_fields
from apischema.serialization import PassThroughOptions
from apischema.type_names import TypeName

from dst.c20.pool import CTX, InjectedFault, callback  # shared fault seam

# =====================================================================  probe types


@dataclass
class P:
    n: int = 0
    name_x: Optional[str] = None
    items: List[int] = field(default_factory=list)


@dataclass
class Q:
    req: int
    s: str = "s"


PosInt = NewType("PosInt", int)
ShortStr = NewType("ShortStr", str)
Tags = NewType("Tags", List[str])
Props = NewType("Props", Dict[str, int])


@dataclass
class C:
    """constraints carried by field metadata: sensitive to settings.errors.*"""

    a: int = field(default=5, metadata=schema(min=0, max=10, mult_of=5))
    b: float = field(default=1.0, metadata=schema(exc_min=0, exc_max=10))
    s: str = field(default="abc", metadata=schema(min_len=2, max_len=4, pattern=r"^[a-z]+$"))
    l: List[int] = field(default_factory=lambda: [1], metadata=schema(min_items=1, max_items=3, unique=True))
    d: Dict[str, int] = field(default_factory=lambda: {"k": 1}, metadata=schema(min_props=1, max_props=2))


@dataclass
class N:
    """NewTypes whose constraints come from the schema() registry"""

    pos: PosInt = PosInt(1)
    short: ShortStr = ShortStr("ab")
    tags: Tags = field(default_factory=lambda: Tags(["t"]))


class Op1:
    def __init__(self, v):
        self.v = v

    def __eq__(self, o):
        return type(o) is type(self) and o.v == self.v

    def __repr__(self):
        return "%s(%r)" % (type(self).__name__, self.v)


class Op1Sub(Op1):
    pass


class Op1SubSub(Op1Sub):
    pass


class Op2(Op1):  # separate hierarchy root for default_conversion alternatives
    def __str__(self):
        return "op2<%s>" % (self.v,)


class Op3:
    """known only to the alternative default_conversion registries"""

    def __init__(self, v):
        self.v = v

    def __eq__(self, o):
        return isinstance(o, Op3) and o.v == self.v

    def __repr__(self):
        return "Op3(%r)" % (self.v,)


@dataclass
class H:
    o: Op1
    os: List[Op1] = field(default_factory=list)


@dataclass
class HR:
    """recursive holder: the recursion analysis of HR runs user callables (lazy getters)"""

    o: Op1
    nxt: Optional["HR"] = None


class TwoReq:
    def __init__(self, a, b):
        self.a, self.b = a, b


@dataclass
class H3:
    o: Op3


class SOF:
    """plain class: unsupported until set_object_fields / default_object_fields"""

    def __init__(self, a=0, b=""):
        self.a, self.b = a, b

    def __eq__(self, o):
        return isinstance(o, SOF) and (o.a, o.b) == (self.a, self.b)

    def __repr__(self):
        return "SOF(%r, %r)" % (self.a, self.b)


@dataclass
class SOD:
    """dataclass whose fields may be overridden"""

    a: int = 0
    b: str = "b"
    c: float = 0.5


@dataclass
class HS:
    sof: SOF
    sod: SOD = field(default_factory=SOD)


@dataclass
class TN:
    x: int = 0


@dataclass
class TwoTN:
    a: TN
    b: TN
    c: List[TN] = field(default_factory=list)


@dataclass
class Animal:
    name: str = "a"


@dataclass
class Cat(Animal):
    lives: int = 9


@dataclass
class Dog(Animal):
    bark: bool = True


@dataclass
class Zoo:
    star: Animal
    all: List[Animal] = field(default_factory=list)


@dataclass
class AL:
    first_name: str = "f"
    last_name: str = "l"
    inner: Optional["AL"] = None


@dataclass
class OR:
    a: int = 1
    b: int = 2
    c: int = 3


@dataclass
class V1:
    lo: int = 0
    hi: int = 10
    tag: str = "t"


@dataclass
class V1Sub(V1):
    extra: int = 0


@dataclass
class V1SubSub(V1Sub):  # third level: what is registered on V1 must reach it through V1Sub
    more: int = 0


@dataclass
class DR:
    a: Optional[int] = None
    b: Optional[int] = None
    c: Optional[int] = None


@dataclass
class DRSub(DR):
    d: Optional[int] = None


@dataclass
class DRSubSub(DRSub):
    e: Optional[int] = None


@dataclass
class S1:
    n: int = 1
    kids: List["S1"] = field(default_factory=list)


@dataclass
class S1Sub(S1):
    m: int = 2


@dataclass
class S1SubSub(S1Sub):
    k: int = 3


@with_fields_set
@dataclass
class FS:
    a: int = 0
    b: Optional[int] = None


@dataclass
class Rec:
    v: int = 0
    nxt: Optional["Rec"] = None
    p: Optional[P] = None


@dataclass
class U:
    id: uuid.UUID = uuid.UUID(int=1)
    ids: Tuple[uuid.UUID, ...] = ()


@dataclass
class RawInit:
    """hand-written __init__ with the generated signature: still a 'raw' dataclass for
    apischema, so override_dataclass_constructors bypasses it (observable through y)"""

    x: int
    y: int = 0

    def __init__(self, x: int, y: int = 0):
        self.x = x
        self.y = y + 100


@dataclass
class FLInner:
    i1: int = 0
    i2: str = ""


@dataclass
class FL:
    a: int = 0
    inner: FLInner = field(default_factory=FLInner, metadata=flatten)


@dataclass
class LCat:
    kind: Literal["lcat"] = "lcat"
    n: int = 0


@dataclass
class LDog:
    kind: Literal["ldog"] = "ldog"
    m: int = 0


LPet = Annotated[Union[LCat, LDog], discriminator("kind")]


class Color(Enum):
    RED = "red"
    BLUE = "blue"


class floatEnum(Enum):  # values that are neither str nor int: serialized through the method of their type
    HALF = 0.5
    QUARTER = 0.25


@dataclass
class L:
    lit: Literal["a", "b"] = "a"
    color: Color = Color.RED



# -- generic class named through a factory registered on its origin
_T = TypeVar("_T")


@dataclass
class Box(Generic[_T]):
    value: _T


@dataclass
class BoxHolder:
    a: Box[int]
    b: Box[str]
    more: List[Box[int]] = field(default_factory=list)


# -- object fields derived lazily from another class's fields (what object_serialization does itself)
@dataclass
class User:
    name: str
    email: str = "e"
    password: str = "pw"


class UserView:
    def __init__(self, name, email="e", password="pw"):
        self.name, self.email, self.password = name, email, password

    def __repr__(self):
        return "UserView(%r, %r, %r)" % (self.name, self.email, self.password)


def _userview_fields():
    return list(object_fields(User).values())


set_object_fields(UserView, _userview_fields)


def user_initials(u: User) -> str:
    return u.name[:1].upper()


USER_CONV = object_serialization(User, ["name", "email", user_initials])


# -- schema annotations holding values that are serialized when the schema is dumped
@dataclass
class Ver:
    major: int
    minor_part: Optional[int] = None


@dataclass
class ExV:
    v: int = field(default=0, metadata=schema(examples=[Ver(1)], extra={"x-ver": Ver(2, 3)}))
    w: Optional[Ver] = field(default=None, metadata=schema(default=Ver(4)))


@dataclass
class Op1Ex:
    v: int = field(default=0, metadata=schema(examples=[Op1(5), Op1Sub(6)]))

# -- the two order-conflated types of the known finding (excluded from generation)
UnionIS = Union[int, str]
UnionSI = Union[str, int]

TYPES: Dict[str, Any] = {
    "P": P, "Q": Q, "C": C, "N": N, "Op1": Op1, "Op1Sub": Op1Sub, "Op1SubSub": Op1SubSub, "Op2": Op2, "Op3": Op3, "H": H, "HR": HR, "H3": H3,
    "SOF": SOF, "SOD": SOD, "HS": HS, "TN": TN, "TwoTN": TwoTN, "Animal": Animal, "Cat": Cat, "Zoo": Zoo,
    "AL": AL, "OR": OR, "V1": V1, "V1Sub": V1Sub, "DR": DR, "S1": S1, "S1Sub": S1Sub, "FS": FS, "Rec": Rec,
    "U": U, "L": L, "RawInit": RawInit, "FL": FL, "FLInner": FLInner, "LPet": LPet, "ListP": List[P], "ListInt": List[int], "DictStrInt": Dict[str, int], "PosInt": PosInt,
    "UUID": uuid.UUID, "OptP": Optional[P], "ListOp1": List[Op1], "ListAnimal": List[Animal],
    "UnionIS": UnionIS, "UnionSI": UnionSI, "Any": Any,
    "BoxInt": Box[int], "BoxHolder": BoxHolder, "User": User, "UserView": UserView, "ExV": ExV, "Op1Ex": Op1Ex,
    "V1SubSub": V1SubSub, "DRSubSub": DRSubSub, "S1SubSub": S1SubSub, "float": float, "floatEnum": floatEnum,
    "floatEnumList": List[floatEnum],
}

# =====================================================================  pre-built configuration objects


def _ident(s: str) -> str:
    return s


@callback("c09_camel")
def _camel(s: str) -> str:
    return re.sub(r"_([a-z])", lambda m: m.group(1).upper(), s)


@callback("c09_upper")
def _upper(s: str) -> str:
    return s.upper()


def _dash(s: str) -> str:
    return s.replace("_", "-")


@callback("c09_op1_from_int")
def op1_from_int(n: int) -> Op1:
    return Op1(n)


@callback("c09_op1_from_str")
def op1_from_str(s: str) -> Op1:
    return Op1("s:" + s)


def op1_from_list(l: List[int]) -> Op1:
    return Op1(sum(l))


@callback("c09_op1_lazy_getter")
def _op1_lazy_getter():
    return Conversion(op1_from_list, source=List[int], target=Op1)


@callback("c09_op1_lazy_ser_getter")
def _op1_lazy_ser_getter():
    return Conversion(op1_to_str, source=Op1, target=str)


@callback("c09_op1_to_int")
def op1_to_int(o: Op1) -> int:
    return o.v if isinstance(o.v, int) else -1


def op1_to_str(o: Op1) -> str:
    return "<%s>" % (o.v,)


def op1sub_to_list(o: Op1Sub) -> List[int]:
    return [o.v]


def op2_to_int(o: Op2) -> int:
    return 2


OP1_TO_STR_NOT_INHERITED = Conversion(op1_to_str, source=Op1, target=str, inherited=False)
OP1_FROM_INT_CONV = Conversion(op1_from_int, source=int, target=Op1)


def op3_from_int(n: int) -> Op3:
    return Op3(n)


def op3_to_int(o: Op3) -> int:
    return o.v


def alt_default_deserialization(tp):
    if tp is Op3:
        return Conversion(op3_from_int, source=int, target=Op3)
    return apischema.conversions.converters.default_deserialization(tp)


def alt_default_serialization(tp):
    if tp is Op3:
        return Conversion(op3_to_int, source=Op3, target=int)
    return apischema.conversions.converters.default_serialization(tp)


def alt2_default_deserialization(tp):
    """bypasses the registry for Op1"""
    if tp is Op1:
        return Conversion(op1_from_str, source=str, target=Op1)
    return apischema.conversions.converters.default_deserialization(tp)


SOF_FIELDS_1 = (ObjectField("a", int), ObjectField("b", str, required=False, default="dflt"))
SOF_FIELDS_2 = (ObjectField("b", str), ObjectField("a", int, required=False, default=7))
SOD_FIELDS_1 = (ObjectField("a", int, required=False, default=1),)
SOD_FIELDS_2 = (ObjectField("c", float), ObjectField("a", int, required=False, default=3))


@callback("c09_sof_fields_callable")
def sof_fields_callable():
    return SOF_FIELDS_2


from apischema.objects.fields import default_object_fields as _default_object_fields


def alt_default_object_fields(cls):
    if cls is SOF:
        return (ObjectField("a", int, required=False, default=42),)
    return _default_object_fields(cls)


from apischema.type_names import default_type_name as _default_type_name


def alt_default_type_name(tp):
    r = _default_type_name(tp)
    if r is None:
        return None
    return TypeName("X" + (r.json_schema or ""), "X" + (r.graphql or ""))


def tn_factory(tp, *args):
    return "Made" + getattr(tp, "__name__", "T")


def alt_coercer(cls, data):
    if cls is int and isinstance(data, str) and data.startswith("#"):
        return int(data[1:])
    from apischema.deserialization.coercion import coerce

    return coerce(cls, data)


def pass_pred(cls):
    return cls is uuid.UUID


SCHEMA_POS_MIN0 = schema(min=0)
SCHEMA_POS_MIN5 = schema(min=5, description="at least five")
SCHEMA_SHORT = schema(max_len=3)
SCHEMA_TAGS = schema(max_items=1)
SCHEMA_P_DESC = schema(description="a P", title="PP")
SCHEMA_P_PROPS = schema(max_props=1)
SCHEMA_TN = schema(description="tn described")
BASE_SCHEMA_FIELD = lambda tp, name, alias_: schema(description="field %s" % name)  # noqa
BASE_SCHEMA_TYPE = lambda tp: schema(title="T:" + getattr(tp, "__name__", "?")) if isinstance(tp, type) else None  # noqa
BASE_SCHEMA_METHOD = lambda tp, method, alias_: schema(description="method %s" % alias_)  # noqa

DISC_KIND = discriminator("kind")
DISC_TYPE = discriminator("type", {"kitty": Cat})
ORDER_CBA = order(["c", "b", "a"])
ORDER_B_FIRST = order({"b": order(-1)})


def v1_check_order(v: V1):
    if v.lo > v.hi:
        raise ValidationError("lo > hi")


def v1_check_tag(v: V1):
    if not v.tag:
        raise ValidationError("empty tag")


def v1_check_hi(v: V1):
    if v.hi > 100:
        raise ValidationError("hi too big")


def v1sub_check(v: V1Sub):
    if v.extra < 0:
        raise ValidationError("negative extra")


def s1_double(s: S1) -> int:
    return s.n * 2


def s1_count(s: S1) -> int:
    return len(s.kids)


def s1_label(s: S1) -> str:
    return "s%d" % s.n


def s1sub_sum(s: S1Sub) -> int:
    return s.n + s.m


def err_callable(constraint, data):
    return "bad %r vs %r" % (data, constraint)


ERROR_NAMES = [
    "minimum", "maximum", "exclusive_minimum", "exclusive_maximum", "multiple_of", "min_length",
    "max_length", "pattern", "min_items", "max_items", "unique_items", "min_properties", "max_properties",
    "one_of", "unexpected_property", "missing_property",
]

# =====================================================================  configuration operations

CFG: Dict[str, Callable[[], Any]] = {}
TAGS: Dict[str, Tuple[str, ...]] = {}


def cfg(name: str, *tags: str):
    def deco(fn):
        CFG[name] = fn
        TAGS[name] = tags
        return fn

    return deco


def _setting(holder, attr: str, label: str, values: Sequence[Any], tags: Tuple[str, ...]):
    for i, v in enumerate(values):
        def apply(holder=holder, attr=attr, v=v):
            setattr(holder, attr, v)

        CFG["set.%s.%d" % (label, i)] = apply
        TAGS["set.%s.%d" % (label, i)] = tags


# value 0 is always the pristine default (captured at import)
_setting(settings, "additional_properties", "additional_properties", [False, True], ("addprops", "schema"))
_setting(settings, "aliaser", "aliaser", [settings.aliaser, _camel, _upper, _dash], ("alias", "schema"))
_setting(settings, "camel_case", "camel_case", [False, True], ("alias", "schema"))
_setting(settings, "default_object_fields", "default_object_fields",
         [settings.default_object_fields, alt_default_object_fields], ("fields",))
_setting(settings, "default_type_name", "default_type_name",
         [settings.default_type_name, alt_default_type_name], ("typename", "disc", "schema"))
_setting(settings, "json_schema_version", "json_schema_version",
         [JsonSchemaVersion.DRAFT_2020_12, JsonSchemaVersion.DRAFT_7, JsonSchemaVersion.OPEN_API_3_0,
          JsonSchemaVersion.OPEN_API_3_1, JsonSchemaVersion.DRAFT_2019_09], ("schema",))
_D = settings.deserialization
_setting(_D, "coerce", "d.coerce", [False, True], ("coerce",))
_setting(_D, "coercer", "d.coercer", [_D.coercer, alt_coercer], ("coerce",))
_setting(_D, "default_conversion", "d.default_conversion",
         [_D.default_conversion, alt_default_deserialization, alt2_default_deserialization], ("conv_d", "op3"))
_setting(_D, "fall_back_on_default", "d.fall_back_on_default", [False, True], ("fallback",))
_setting(_D, "no_copy", "d.no_copy", [True, False], ("nocopy_d",))
_setting(_D, "override_dataclass_constructors", "d.override_dataclass_constructors", [False, True], ("ctor",))
_setting(_D, "pass_through", "d.pass_through", [(), (uuid.UUID,), pass_pred], ("pass_d",))
_S = settings.serialization
_setting(_S, "check_type", "s.check_type", [False, True], ("checktype",))
_setting(_S, "fall_back_on_any", "s.fall_back_on_any", [False, True], ("checktype", "fallany"))
_setting(_S, "default_conversion", "s.default_conversion",
         [_S.default_conversion, alt_default_serialization], ("conv_s", "op3"))
_setting(_S, "exclude_defaults", "s.exclude_defaults", [False, True], ("exclude",))
_setting(_S, "exclude_none", "s.exclude_none", [False, True], ("exclude",))
_setting(_S, "exclude_unset", "s.exclude_unset", [True, False], ("unset",))
_setting(_S, "no_copy", "s.no_copy", [True, False], ("nocopy_s",))
_setting(_S, "pass_through", "s.pass_through",
         [PassThroughOptions(), PassThroughOptions(any=True), PassThroughOptions(collections=True),
          PassThroughOptions(types=(uuid.UUID,)), PassThroughOptions(dataclasses=True)], ("pass_s",))
for _e in ERROR_NAMES:
    _default = getattr(settings.errors, _e)
    _vals = [_default, "E<%s>{}" % _e if "{}" in _default else "E<%s>" % _e]
    if "{}" in _default:
        _vals.append(err_callable)
    _setting(settings.errors, _e, "errors.%s" % _e, _vals, ("errors", "err_" + _e))
_setting(settings.base_schema, "field", "base_schema.field", [settings.base_schema.field, BASE_SCHEMA_FIELD], ("schema",))
_setting(settings.base_schema, "type", "base_schema.type", [settings.base_schema.type, BASE_SCHEMA_TYPE], ("schema",))
_setting(settings.base_schema, "method", "base_schema.method", [settings.base_schema.method, BASE_SCHEMA_METHOD], ("schema", "serialized"))


# -- conversions
@cfg("deserializer.Op1.from_int", "conv_d")
def _():
    deserializer(op1_from_int)


@cfg("deserializer.Op1.from_str", "conv_d")
def _():
    deserializer(op1_from_str)


@cfg("deserializer.Op1.conv_int", "conv_d")
def _():
    deserializer(OP1_FROM_INT_CONV)


@cfg("deserializer.Op1.lazy_list", "conv_d")
def _():
    deserializer(lazy=_op1_lazy_getter, target=Op1)


@cfg("serializer.Op1.lazy_str", "conv_s")
def _():
    serializer(lazy=_op1_lazy_ser_getter, source=Op1)


def _op1_from_float(x: float) -> Op1:
    return Op1(("classbody", x))


@cfg("deserializer.Op1.class_body", "conv_d")
def _():
    # the decorator form inside a class body: registered by __set_name__ when the class is created
    type("Op1Factory", (), {"from_float": deserializer(staticmethod(_op1_from_float))})


@cfg("reset_deserializers.Op1", "conv_d")
def _():
    reset_deserializers(Op1)


@cfg("serializer.Op1.to_int", "conv_s")
def _():
    serializer(op1_to_int)


@cfg("serializer.Op1.to_str", "conv_s")
def _():
    serializer(op1_to_str)


@cfg("serializer.Op1.to_str_not_inherited", "conv_s")
def _():
    serializer(OP1_TO_STR_NOT_INHERITED)


@cfg("serializer.Op1Sub.to_list", "conv_s")
def _():
    serializer(op1sub_to_list)


@cfg("serializer.Op2.to_int", "conv_s")
def _():
    serializer(op2_to_int)


@cfg("reset_serializer.Op1", "conv_s")
def _():
    reset_serializer(Op1)


@cfg("reset_serializer.Op1Sub", "conv_s")
def _():
    reset_serializer(Op1Sub)


def float_to_pct(f: float) -> str:
    return "%d%%" % round(f * 100)


def float_to_list(f: float) -> List[int]:
    return [int(f * 100)]


@cfg("serializer.float.to_pct", "conv_s", "fe")
def _():
    serializer(float_to_pct)


@cfg("serializer.float.to_list", "conv_s", "fe")
def _():
    serializer(float_to_list)


@cfg("reset_serializer.float", "conv_s", "fe")
def _():
    reset_serializer(float)


@cfg("as_str.Op2", "conv_d", "conv_s", "op2")
def _():
    from apischema.conversions import as_str

    as_str(Op2)


@cfg("as_names.Color", "conv_d", "conv_s", "enum", "errors")
def _():
    from apischema.conversions import as_names

    as_names(Color)


@cfg("as_names.Color.upper", "conv_d", "conv_s", "enum", "errors")
def _():
    from apischema.conversions import as_names

    as_names(Color, _upper)


def _raising_aliaser(s: str) -> str:
    raise ValueError("aliaser refuses " + s)


@cfg("as_str.TwoReq.failing", "failing")
def _():
    from apischema.conversions import as_str

    # aborted registration: the serializer half cannot be resolved for a two-argument class
    as_str(TwoReq)
    serializer(Conversion(_tworeq_bad, source=TwoReq))


def _tworeq_bad(x, y):  # a converter must have at most one parameter without default
    return x


@cfg("as_names.Color.failing", "failing")
def _():
    from apischema.conversions import as_names

    as_names(Color, _raising_aliaser)  # raises while building the names enum


@cfg("deserializer.failing", "failing")
def _():
    deserializer(_tworeq_bad)  # rejected: two required parameters, no types


@cfg("validator.failing", "failing")
def _():
    validator("nope nope", owner=V1)(lambda: None)  # rejected: a validator needs a parameter


# -- object fields
@cfg("set_object_fields.SOF.1", "fields")
def _():
    set_object_fields(SOF, SOF_FIELDS_1)


@cfg("set_object_fields.SOF.2", "fields")
def _():
    set_object_fields(SOF, SOF_FIELDS_2)


@cfg("set_object_fields.SOF.callable", "fields")
def _():
    set_object_fields(SOF, sof_fields_callable)


@cfg("set_object_fields.SOF.none", "fields")
def _():
    set_object_fields(SOF, None)


@cfg("set_object_fields.SOD.1", "fields")
def _():
    set_object_fields(SOD, SOD_FIELDS_1)


@cfg("set_object_fields.SOD.2", "fields")
def _():
    set_object_fields(SOD, SOD_FIELDS_2)


@cfg("set_object_fields.SOD.none", "fields")
def _():
    set_object_fields(SOD, None)


FLINNER_FIELDS_1 = (ObjectField("i1", int, required=False, default=0),
                    ObjectField("i3", int, required=False, default=3))
SOD_FIELDS_REC = (ObjectField("a", int, required=False, default=1),
                  ObjectField("child", Optional[SOD], required=False, default=None))
REC_FIELDS_FLAT = (ObjectField("v", int, required=False, default=0),)
LCAT_FIELDS = (ObjectField("kind", Literal["lcat", "lkitty"], required=False, default="lcat"),
               ObjectField("n", int, required=False, default=0))


@cfg("set_object_fields.FLInner.1", "fields", "flat")
def _():
    set_object_fields(FLInner, FLINNER_FIELDS_1)


@cfg("set_object_fields.FLInner.none", "fields", "flat")
def _():
    set_object_fields(FLInner, None)


@cfg("set_object_fields.SOD.rec", "fields")
def _():
    set_object_fields(SOD, SOD_FIELDS_REC)


@cfg("set_object_fields.Rec.flat", "fields", "rec")
def _():
    set_object_fields(Rec, REC_FIELDS_FLAT)


@cfg("set_object_fields.Rec.none", "fields", "rec")
def _():
    set_object_fields(Rec, None)


@cfg("set_object_fields.LCat.kitty", "fields", "lpet", "disc")
def _():
    set_object_fields(LCat, LCAT_FIELDS)


# -- type names of a generic class (factory registered on the origin)
def box_name_factory(tp, arg):
    return "Box_" + getattr(arg, "__name__", "x")


def box_name_factory2(tp, arg):
    return getattr(arg, "__name__", "x").capitalize() + "Box"


@cfg("type_name.Box.factory", "typename", "schema", "box")
def _():
    type_name(box_name_factory)(Box)


@cfg("type_name.Box.factory2", "typename", "schema", "box")
def _():
    type_name(box_name_factory2)(Box)


@cfg("type_name.Box.none", "typename", "schema", "box")
def _():
    type_name(None)(Box)


# -- fields of the class from which other classes derive theirs lazily
USER_FIELDS_MAIL = (ObjectField("name", str), ObjectField("email", str, required=False, default="e", metadata=alias("mail")))
USER_FIELDS_NOPW = (ObjectField("name", str), ObjectField("email", str, required=False, default="e"))


@cfg("set_object_fields.User.mail", "fields", "user")
def _():
    set_object_fields(User, USER_FIELDS_MAIL)


@cfg("set_object_fields.User.nopw", "fields", "user")
def _():
    set_object_fields(User, USER_FIELDS_NOPW)


@cfg("set_object_fields.User.none", "fields", "user")
def _():
    set_object_fields(User, None)


@cfg("alias.User.upper", "alias", "user")
def _():
    alias(_upper)(User)


# -- type names
@cfg("type_name.TN.str", "typename", "schema")
def _():
    type_name("Renamed")(TN)


@cfg("type_name.TN.factory", "typename", "schema")
def _():
    type_name(tn_factory)(TN)


@cfg("type_name.TN.none", "typename", "schema")
def _():
    type_name(None)(TN)


@cfg("type_name.Cat.str", "typename", "disc", "schema")
def _():
    type_name("Kitty")(Cat)


@cfg("type_name.Cat.other", "typename", "disc", "schema")
def _():
    type_name("Feline")(Cat)


@cfg("type_name.P.graphql", "typename", "graphql")
def _():
    type_name(graphql="GqlP")(P)


@cfg("type_name.P.str", "typename", "schema")
def _():
    type_name("PP")(P)


# -- schema() registry
@cfg("schema.PosInt.min0", "schemareg", "schema")
def _():
    SCHEMA_POS_MIN0(PosInt)


@cfg("schema.PosInt.min5", "schemareg", "schema")
def _():
    SCHEMA_POS_MIN5(PosInt)


SCHEMA_POS_DESC = schema(description="just a description", title="Pos")


@cfg("schema.PosInt.desc_only", "schemareg", "schema")
def _():
    SCHEMA_POS_DESC(PosInt)


@cfg("schema.ShortStr", "schemareg", "schema")
def _():
    SCHEMA_SHORT(ShortStr)


@cfg("schema.Tags", "schemareg", "schema")
def _():
    SCHEMA_TAGS(Tags)


@cfg("schema.P.desc", "schemareg", "schema")
def _():
    SCHEMA_P_DESC(P)


@cfg("schema.P.props", "schemareg", "schema")
def _():
    SCHEMA_P_PROPS(P)


@cfg("schema.TN", "schemareg", "schema")
def _():
    SCHEMA_TN(TN)


# -- class aliasers
@cfg("alias.AL.upper", "alias", "schema")
def _():
    alias(_upper)(AL)


@cfg("alias.AL.camel", "alias", "schema")
def _():
    alias(_camel)(AL)


@cfg("alias.P.dash", "alias", "schema")
def _():
    alias(_dash)(P)


@cfg("alias.FLInner.upper", "alias", "schema", "flat")
def _():
    alias(_upper)(FLInner)


@cfg("alias.V1.upper", "alias", "validator")
def _():
    alias(_upper)(V1)


@cfg("alias.LCat.upper", "alias", "disc", "lpet")
def _():
    alias(_upper)(LCat)


# -- ordering
@cfg("order.OR.cba", "order", "schema")
def _():
    ORDER_CBA(OR)


@cfg("order.OR.b_first", "order", "schema")
def _():
    ORDER_B_FIRST(OR)


ORDER_N_LAST = order({"n": order(99)})


@cfg("order.S1.n_last", "order", "serialized")
def _():
    ORDER_N_LAST(S1)


# -- validators
@cfg("validator.V1.order", "validator")
def _():
    validator(owner=V1)(v1_check_order)


@cfg("validator.V1.tag", "validator")
def _():
    validator(owner=V1)(v1_check_tag)


@cfg("validator.V1.hi_field", "validator")
def _():
    validator("hi", owner=V1)(v1_check_hi)


@cfg("validator.V1.order_discard", "validator")
def _():
    validator(discard=["lo", "hi"], owner=V1)(v1_check_order)


@cfg("validator.V1Sub.extra", "validator")
def _():
    validator(owner=V1Sub)(v1sub_check)


@cfg("validator.PosInt", "validator")
def _():
    validator(owner=PosInt)(_posint_even)


def _posint_even(n: PosInt):
    if n % 2:
        raise ValidationError("odd")


# -- dependent_required
@cfg("dependent_required.DR.a_needs_b", "depreq", "schema")
def _():
    dependent_required({"a": ["b"]}, owner=DR)


@cfg("dependent_required.DR.b_c_mutual", "depreq", "schema")
def _():
    dependent_required({"b": ["c"], "c": ["b"]}, owner=DR)


@cfg("dependent_required.DR.aborted", "depreq", "schema")
def _():
    # aborted registration: first pair is appended, the second one is rejected
    dependent_required({"c": ["a"], 3: ["a"]}, owner=DR)


# -- discriminator
@cfg("discriminator.Animal.kind", "disc", "schema", "conv_d", "conv_s")
def _():
    DISC_KIND(Animal)


@cfg("discriminator.Animal.type_mapping", "disc", "schema", "conv_d", "conv_s")
def _():
    DISC_TYPE(Animal)


# -- serialized methods
@cfg("serialized.S1.double", "serialized", "schema")
def _():
    serialized(owner=S1)(s1_double)


@cfg("serialized.S1.count_alias", "serialized", "schema")
def _():
    serialized("kidCount", owner=S1)(s1_count)


@cfg("serialized.S1.label", "serialized", "schema")
def _():
    serialized(owner=S1)(s1_label)


@cfg("serialized.S1.double_replaced", "serialized", "schema")
def _():
    serialized("s1_double", owner=S1)(s1_label)


@cfg("serialized.S1Sub.sum", "serialized", "schema")
def _():
    serialized(owner=S1Sub)(s1sub_sum)


# -- knobs
@cfg("cache.reset", "knob")
def _():
    ap_cache.reset()


for _n in (1, 2, 8, 128):
    def _apply(n=_n):
        ap_cache.set_size(n)

    CFG["cache.set_size.%d" % _n] = _apply
    TAGS["cache.set_size.%d" % _n] = ("knob",)

# areas = groups of configuration operations used by the swarm to pick sub-alphabets
AREAS: Dict[str, List[str]] = {}
for _name in CFG:
    _a = _name.split(".")[0] if not _name.startswith("set.") else ".".join(_name.split(".")[:-1])
    if _name.startswith("set.errors."):
        _a = "set.errors"
    if _name.startswith("set.base_schema."):
        _a = "set.base_schema"
    _a = {"reset_deserializers": "deserializer", "reset_serializer": "serializer"}.get(_a, _a)
    AREAS.setdefault(_a, []).append(_name)

# =====================================================================  observations

OBS: Dict[str, Callable[[], Any]] = {}
OBS_TAGS: Dict[str, Tuple[str, ...]] = {}
EXCLUDED_FROM_GENERATION = set()


def obs(name: str, *tags: str):
    def deco(fn):
        OBS[name] = fn
        OBS_TAGS[name] = tags
        return fn

    return deco


def _des(name: str, tname: str, data: Any, *tags: str):
    def f(tname=tname, data=data):
        return apischema.deserialize(TYPES[tname], _copy(data))

    OBS["des.%s" % name] = f
    OBS_TAGS["des.%s" % name] = tags


def _ser(name: str, tname: str, thunk: Callable[[], Any], *tags: str):
    def f(tname=tname, thunk=thunk):
        return apischema.serialize(TYPES[tname], thunk())

    OBS["ser.%s" % name] = f
    OBS_TAGS["ser.%s" % name] = tags


def _schemas(tname: str, *tags: str):
    from apischema.json_schema import definitions_schema, deserialization_schema, serialization_schema

    def d(tname=tname):
        return deserialization_schema(TYPES[tname])

    def s(tname=tname):
        return serialization_schema(TYPES[tname])

    def defs(tname=tname):
        return definitions_schema(deserialization=[TYPES[tname]], serialization=[TYPES[tname]], all_refs=True)

    for k, fn in (("dschema", d), ("sschema", s), ("defs", defs)):
        OBS["%s.%s" % (k, tname)] = fn
        OBS_TAGS["%s.%s" % (k, tname)] = tags + ("schema",)


def _copy(x):
    import copy

    return copy.deepcopy(x)


_des("P.ok", "P", {"n": 1, "name_x": "a", "items": [1, 2]}, "alias", "schemareg", "typename")
_des("P.extra", "P", {"n": 1, "zzz": 2}, "addprops", "err_unexpected_property", "errors", "schemareg")
_des("P.camel", "P", {"n": 1, "nameX": "a"}, "alias", "addprops")
_des("P.upper", "P", {"N": 1, "NAME_X": "a"}, "alias")
_des("P.dash", "P", {"n": 2, "name-x": "q"}, "alias")
_des("P.coerce", "P", {"n": "1"}, "coerce", "fallback")
_des("P.coerce_hash", "P", {"n": "#12"}, "coerce", "fallback")
_des("P.bad", "P", {"n": "x", "items": "no"}, "fallback", "coerce")
_des("ListP", "ListP", [{"n": 1}, {"n": 2, "nope": 0}], "addprops", "alias", "errors", "schemareg")
_des("OptP", "OptP", {"n": 3}, "schemareg", "alias")
_des("Q.missing", "Q", {"s": "x"}, "err_missing_property", "errors", "alias")
_des("Q.ok", "Q", {"req": 1}, "ctor", "alias")
_des("Q.ok2", "Q", {"req": 1, "s": "t"}, "ctor")
_des("RawInit", "RawInit", {"x": 1}, "ctor")
_des("RawInit.xy", "RawInit", {"x": 1, "y": 2}, "ctor")
_des("C.ok", "C", {"a": 5, "b": 1.5, "s": "abc", "l": [1, 2], "d": {"k": 1}}, "errors")
_des("C.min", "C", {"a": -5}, "err_minimum", "errors")
_des("C.max", "C", {"a": 15}, "err_maximum", "errors")
_des("C.mult", "C", {"a": 3}, "err_multiple_of", "errors")
_des("C.excmin", "C", {"b": 0}, "err_exclusive_minimum", "errors")
_des("C.excmax", "C", {"b": 10}, "err_exclusive_maximum", "errors")
_des("C.minlen", "C", {"s": "a"}, "err_min_length", "errors")
_des("C.maxlen", "C", {"s": "abcde"}, "err_max_length", "errors")
_des("C.pattern", "C", {"s": "AB1"}, "err_pattern", "errors")
_des("C.minitems", "C", {"l": []}, "err_min_items", "errors")
_des("C.maxitems", "C", {"l": [1, 2, 3, 4]}, "err_max_items", "errors")
_des("C.unique", "C", {"l": [1, 1]}, "err_unique_items", "errors")
_des("C.minprops", "C", {"d": {}}, "err_min_properties", "errors")
_des("C.maxprops", "C", {"d": {"a": 1, "b": 2, "c": 3}}, "err_max_properties", "errors")
_des("C.many", "C", {"a": -3, "b": 11, "s": "A", "l": [], "d": {}}, "errors")
_des("L.bad_lit", "L", {"lit": "c"}, "err_one_of", "errors")
_des("L.bad_enum", "L", {"color": "green"}, "err_one_of", "errors")
_des("L.ok", "L", {"lit": "b", "color": "blue"}, "errors", "enum")
_des("L.name", "L", {"color": "BLUE"}, "enum")
_des("L.name_lower", "L", {"color": "blue"}, "enum")
_des("Op2.str", "Op2", "abc", "op2", "conv_d")
_des("N.ok", "N", {"pos": 6, "short": "ab", "tags": ["a"]}, "schemareg", "validator")
_des("N.neg", "N", {"pos": -1}, "schemareg", "err_minimum", "errors")
_des("N.small", "N", {"pos": 3}, "schemareg", "validator")
_des("N.long", "N", {"short": "abcdef"}, "schemareg", "err_max_length")
_des("N.tags", "N", {"tags": ["a", "b"]}, "schemareg", "err_max_items")
_des("PosInt.neg", "PosInt", -2, "schemareg", "validator")
_des("PosInt.3", "PosInt", 3, "schemareg", "validator")
_des("Op1.int", "Op1", 5, "conv_d")
_des("Op1.str", "Op1", "five", "conv_d")
_des("Op1.list", "Op1", [1, 2], "conv_d")
_des("Op1.float", "Op1", 1.5, "conv_d")
_des("H", "H", {"o": 1, "os": ["a", 2]}, "conv_d")
_des("ListOp1", "ListOp1", [1, "b"], "conv_d")
_des("HR", "HR", {"o": [1, 2], "nxt": {"o": 3}}, "conv_d")
_des("Op3", "Op3", 3, "op3")
_des("H3", "H3", {"o": 4}, "op3")
_des("SOF.a", "SOF", {"a": 1}, "fields")
_des("SOF.b", "SOF", {"b": "x"}, "fields")
_des("SOF.empty", "SOF", {}, "fields")
_des("SOD.abc", "SOD", {"a": 1, "b": "x", "c": 1.5}, "fields")
_des("SOD.c", "SOD", {"c": 2.5}, "fields")
_des("SOD.empty", "SOD", {}, "fields")
_des("HS", "HS", {"sof": {"a": 3}, "sod": {"c": 1.0}}, "fields")
_des("Animal.cat", "Animal", {"kind": "Cat", "name": "c", "lives": 3}, "disc", "addprops")
_des("Animal.kitty", "Animal", {"kind": "Kitty", "name": "c"}, "disc")
_des("Animal.type_kitty", "Animal", {"type": "kitty", "name": "c"}, "disc")
_des("Animal.xcat", "Animal", {"kind": "XCat", "name": "c"}, "disc", "typename")
_des("Animal.plain", "Animal", {"name": "plain"}, "disc")
_des("Animal.bad_kind", "Animal", {"kind": "Fish", "name": "f"}, "disc", "err_one_of", "errors")
_des("Animal.no_kind", "Animal", {"name": "n", "lives": 1}, "disc", "err_missing_property", "addprops")
_des("Zoo", "Zoo", {"star": {"kind": "Dog", "name": "d"}, "all": [{"kind": "Cat", "name": "c"}]}, "disc")
_des("AL.snake", "AL", {"first_name": "a", "last_name": "b", "inner": {"first_name": "c"}}, "alias")
_des("AL.upper", "AL", {"FIRST_NAME": "a", "LAST_NAME": "b"}, "alias")
_des("AL.camel", "AL", {"firstName": "a", "inner": {"lastName": "z"}}, "alias")
_des("V1.ok", "V1", {"lo": 1, "hi": 2}, "validator")
_des("V1.order", "V1", {"lo": 5, "hi": 2}, "validator")
_des("V1.tag", "V1", {"tag": ""}, "validator")
_des("V1.hi", "V1", {"hi": 500}, "validator")
_des("V1.all", "V1", {"lo": 900, "hi": 500, "tag": ""}, "validator")
_des("V1.upper_hi", "V1", {"HI": 500}, "validator", "alias")
_des("V1.upper_all", "V1", {"LO": 900, "HI": 500, "TAG": ""}, "validator", "alias")
_des("V1Sub.order", "V1Sub", {"lo": 5, "hi": 2, "extra": -1}, "validator")
_des("DR.a", "DR", {"a": 1}, "depreq", "err_missing_property")
_des("DR.b", "DR", {"b": 1}, "depreq")
_des("DR.c", "DR", {"c": 1}, "depreq")
_des("DR.ab", "DR", {"a": 1, "b": 2}, "depreq")
_des("DRSubSub.a", "DRSubSub", {"a": 1, "e": 2}, "depreq", "err_missing_property")
_des("DRSubSub.b", "DRSubSub", {"b": 1}, "depreq")
_des("V1SubSub.order", "V1SubSub", {"lo": 5, "hi": 2, "extra": -1, "more": 1}, "validator")
_des("V1SubSub.all", "V1SubSub", {"lo": 900, "hi": 500, "tag": ""}, "validator")
_des("FS", "FS", {"a": 1}, "unset")
_des("Rec", "Rec", {"v": 1, "nxt": {"v": 2, "p": {"n": 1, "zz": 1}}}, "addprops", "alias")
_des("Rec.camel", "Rec", {"v": 1, "p": {"nameX": "q"}}, "alias")
_des("U.str", "U", {"id": "00000000-0000-0000-0000-000000000002"}, "pass_d")
_des("ListInt.coerce", "ListInt", ["1", 2], "coerce")
_des("FL.lower", "FL", {"a": 1, "i1": 2, "i2": "x"}, "flat", "alias", "fields")
_des("FL.upper", "FL", {"a": 1, "I1": 2}, "flat", "alias")
_des("FL.i3", "FL", {"i3": 5}, "flat", "fields")
_des("LPet.cat", "LPet", {"kind": "lcat", "n": 1}, "lpet", "disc")
_des("LPet.kitty", "LPet", {"kind": "lkitty", "n": 1}, "lpet", "disc")
_des("LPet.upper", "LPet", {"KIND": "lcat", "N": 1}, "lpet", "disc", "alias")
_des("SOD.child", "SOD", {"a": 1, "child": {"a": 2, "child": None}}, "fields")
_des("Rec.deep", "Rec", {"v": 1, "nxt": {"v": 2, "nxt": {"v": 3}}}, "rec", "fields")
_des("UnionIS", "UnionIS", "1", "known8")
_des("UnionSI", "UnionSI", "1", "known8")
EXCLUDED_FROM_GENERATION.update({"des.UnionIS", "des.UnionSI"})


@obs("des.U.uuid_obj", "pass_d")
def _():
    return apischema.deserialize(uuid.UUID, uuid.UUID(int=5))


@obs("des.ListInt.identity", "nocopy_d")
def _():
    data = [1, 2, 3]
    r = apischema.deserialize(List[int], data)
    return [r, r is data]


@obs("des.DictStrInt.identity", "nocopy_d")
def _():
    data = {"a": 1}
    r = apischema.deserialize(Dict[str, int], data)
    return [r, r is data]


@obs("ser.ListInt.identity", "nocopy_s", "pass_s")
def _():
    data = [1, 2, 3]
    r = apischema.serialize(List[int], data)
    return [r, r is data]


@obs("ser.DictStrInt.identity", "nocopy_s", "pass_s")
def _():
    data = {"a": 1}
    r = apischema.serialize(Dict[str, int], data)
    return [r, r is data]


@obs("ser.P.identity", "pass_s")
def _():
    p = P(1, "a", [1])
    r = apischema.serialize(P, p)
    return [r if not isinstance(r, P) else "<P>", r is p]


@obs("ser.Any.P", "pass_s", "alias", "exclude")
def _():
    r = apischema.serialize(Any, P(1, None, [1]))
    return r if not isinstance(r, P) else "<P>"


@obs("ser.untyped.P", "pass_s", "alias", "exclude")
def _():
    r = apischema.serialize(P(2, None, []))
    return r if not isinstance(r, P) else "<P>"


@obs("ser.untyped.Op1", "conv_s")
def _():
    return apischema.serialize(Op1(5))


_ser("P.full", "P", lambda: P(1, "a", [1]), "alias", "exclude")
_ser("P.defaults", "P", lambda: P(), "exclude", "alias")
_ser("P.wrong", "P", lambda: Q(1), "checktype", "fallany")
_ser("ListP.wrong", "ListP", lambda: [P(), 3], "checktype", "fallany")
_ser("ListInt.wrong", "ListInt", lambda: ["a"], "checktype")
_ser("Q", "Q", lambda: Q(1, "s"), "exclude", "alias")
_ser("Op1", "Op1", lambda: Op1(5), "conv_s")
_ser("Op1Sub", "Op1Sub", lambda: Op1Sub(6), "conv_s")
_ser("Op1SubSub", "Op1SubSub", lambda: Op1SubSub(9), "conv_s")
_ser("Op1.subsub_instance", "Op1", lambda: Op1SubSub(10), "conv_s")
_ser("Op1.sub_instance", "Op1", lambda: Op1Sub(7), "conv_s")
_ser("Op2", "Op2", lambda: Op2(8), "conv_s", "op2")
_ser("L", "L", lambda: L("b", Color.BLUE), "enum")
_ser("H", "H", lambda: H(Op1(1), [Op1(2), Op1Sub(3)]), "conv_s")
_ser("HR", "HR", lambda: HR(Op1(1), HR(Op1(2))), "conv_s")
_ser("Op3", "Op3", lambda: Op3(3), "op3")
_ser("H3", "H3", lambda: H3(Op3(4)), "op3")
_ser("SOF", "SOF", lambda: SOF(1, "x"), "fields")
_ser("SOD", "SOD", lambda: SOD(1, "x", 2.5), "fields")
_ser("HS", "HS", lambda: HS(SOF(1, "y"), SOD(2)), "fields")
_ser("Animal.cat", "Animal", lambda: Cat("c", 3), "disc", "conv_s")
_ser("Animal.dog", "Animal", lambda: Dog("d"), "disc", "conv_s")
_ser("Animal.base", "Animal", lambda: Animal("a"), "disc")
_ser("Cat", "Cat", lambda: Cat("c", 3), "disc")
_ser("Zoo", "Zoo", lambda: Zoo(Dog("d"), [Cat("c")]), "disc")
_ser("ListAnimal", "ListAnimal", lambda: [Cat("c"), Dog("d")], "disc")
_ser("AL", "AL", lambda: AL("a", "b", AL("c", "d")), "alias")
_ser("OR", "OR", lambda: OR(), "order")
_ser("S1", "S1", lambda: S1(1, [S1(2)]), "serialized", "order")
_ser("S1Sub", "S1Sub", lambda: S1Sub(1, [], 5), "serialized", "order")
_ser("S1SubSub", "S1SubSub", lambda: S1SubSub(1, [], 5, 7), "serialized", "order")
_ser("float", "float", lambda: 0.5, "fe")
_ser("floatEnum", "floatEnum", lambda: floatEnum.HALF, "fe", "enum")
_ser("floatEnumList", "floatEnumList", lambda: [floatEnum.QUARTER, floatEnum.HALF], "fe")
_ser("FS.unset", "FS", lambda: FS(a=1), "unset", "exclude")
_ser("FS.all", "FS", lambda: FS(1, 2), "unset")
_ser("Rec", "Rec", lambda: Rec(1, Rec(2, None, P(3)), None), "alias", "exclude")
_ser("U", "U", lambda: U(uuid.UUID(int=3), (uuid.UUID(int=4),)), "pass_s")
_ser("UUID", "UUID", lambda: uuid.UUID(int=9), "pass_s")
_ser("N", "N", lambda: N(), "schemareg")
_ser("FL", "FL", lambda: FL(1, FLInner(2, "x")), "flat", "alias", "fields")
_ser("LPet.cat", "LPet", lambda: LCat("lcat", 1), "lpet", "disc", "alias")
_ser("Rec.deep", "Rec", lambda: Rec(1, Rec(2, Rec(3))), "rec", "fields")
_ser("SOD.plain", "SOD", lambda: SOD(4, "q", 1.5), "fields")

_des("BoxHolder", "BoxHolder", {"a": {"value": 1}, "b": {"value": "x"}, "more": [{"value": 2}]}, "box", "typename")
_des("UserView", "UserView", {"name": "bob", "email": "b@x"}, "user", "fields", "alias")
_des("UserView.mail", "UserView", {"name": "bob", "mail": "b@x"}, "user", "fields", "alias")
_des("UserView.upper", "UserView", {"NAME": "bob"}, "user", "fields", "alias")
_des("User", "User", {"name": "bob", "password": "s"}, "user", "fields", "alias")
_ser("BoxHolder", "BoxHolder", lambda: BoxHolder(Box(1), Box("x"), [Box(2)]), "box")
_ser("User", "User", lambda: User("bob"), "user", "fields", "alias")
_ser("UserView", "UserView", lambda: UserView("bob"), "user", "fields", "alias")


@obs("ser.User.conv", "user", "fields", "alias")
def _():
    return apischema.serialize(User, User("bob"), conversion=USER_CONV)


@obs("sschema.User.conv", "user", "fields", "alias", "schema")
def _():
    from apischema.json_schema import serialization_schema

    return serialization_schema(User, conversion=USER_CONV)

# -- GraphQL: schema printing and execution (resolver results go through the cached
#    partial serialization methods)
def gq_p() -> P:
    return P(1, "a", [1])


def gq_op1() -> Op1:
    return Op1(5)


def gq_h() -> H:
    return H(Op1(1), [Op1(2)])


def gq_s1() -> S1:
    return S1(1, [S1(2)])


def gq_al() -> AL:
    return AL("a", "b")


def gq_echo(q: Q) -> int:
    return q.req


def _gql(resolvers, query=None):
    import graphql
    from apischema.graphql import graphql_schema

    sch = graphql_schema(query=resolvers)
    if query is None:
        return graphql.print_schema(sch)
    r = graphql.graphql_sync(sch, query)
    return [r.data, [str(e) for e in (r.errors or [])]]


def _gobs(name, resolvers, query, *tags):
    def f(resolvers=resolvers, query=query):
        return _gql(resolvers, query)

    OBS[name] = f
    OBS_TAGS[name] = tags + ("graphql",)


_gobs("gqlprint.P", [gq_p], None, "alias", "typename", "schemareg", "schema")
_gobs("gqlexec.P", [gq_p], "{ gqP { n nameX items } }", "alias", "exclude")
_gobs("gqlprint.Op1", [gq_op1], None, "conv_s", "typename")
_gobs("gqlexec.Op1", [gq_op1], "{ gqOp1 }", "conv_s")
_gobs("gqlexec.H", [gq_h], "{ gqH { o os } }", "conv_s")
_gobs("gqlprint.S1", [gq_s1], None, "serialized", "order", "schema")
_gobs("gqlexec.S1", [gq_s1], "{ gqS1 { n s1Double kids { n } } }", "serialized")
_gobs("gqlexec.AL", [gq_al], "{ gqAl { firstName lastName } }", "alias")
_gobs("gqlexec.echo", [gq_echo], "{ gqEcho(q: {req: 3}) }", "alias", "coerce", "addprops", "schemareg")

for _t, _tags in [
    ("P", ("alias", "addprops", "schemareg", "typename")), ("Q", ("alias",)), ("C", ()), ("N", ("schemareg",)),
    ("Op1", ("conv_d", "conv_s")), ("H", ("conv_d", "conv_s")), ("HR", ("conv_d", "conv_s")), ("H3", ("op3",)), ("SOF", ("fields",)),
    ("SOD", ("fields",)), ("HS", ("fields",)), ("TwoTN", ("typename", "schemareg")), ("Animal", ("disc", "typename")),
    ("Zoo", ("disc", "typename")), ("AL", ("alias",)), ("OR", ("order",)), ("DR", ("depreq",)),
    ("S1", ("serialized", "order")), ("S1Sub", ("serialized",)), ("Rec", ("alias", "addprops")), ("U", ()),
    ("PosInt", ("schemareg",)), ("FL", ("flat", "alias", "fields")), ("LPet", ("lpet", "disc")), ("L", ("enum",)),
    ("BoxHolder", ("box", "typename")), ("BoxInt", ("box", "typename")), ("UserView", ("user", "fields", "alias")),
    ("ExV", ("exclude", "alias", "nocopy_s")), ("Op1Ex", ("conv_s",)),
    ("V1SubSub", ("validator",)), ("DRSubSub", ("depreq",)), ("S1SubSub", ("serialized",)), ("floatEnum", ("fe",)),
]:
    _schemas(_t, *_tags)

GENERATION_OBS = [o for o in OBS if o not in EXCLUDED_FROM_GENERATION]


def same_target(cfg_name: str, obs_name: str) -> bool:
    """the configuration operation names the very type the observation is about"""
    cp, op = cfg_name.split("."), obs_name.split(".")
    # (a subclass named after its base counts: Op1Sub / Op1SubSub observations for an Op1 operation)
    return len(cp) > 1 and len(op) > 1 and (cp[1] == op[1] or op[1].startswith(cp[1]))


_WARM: Dict[str, List[str]] = {}


def warm_set(obs_name: str, cap: int = 6) -> List[str]:
    """Other observations about the same type: made (uncompared) before a change so that
    memos keyed differently from the final observation are filled too."""
    if obs_name not in _WARM:
        parts = obs_name.split(".")
        tgt = parts[1] if len(parts) > 1 else None
        others = [o for o in GENERATION_OBS if o != obs_name and len(o.split(".")) > 1 and o.split(".")[1] == tgt]
        others.sort(key=lambda o: (o.split(".")[0] != parts[0], o))
        _WARM[obs_name] = others[:cap]
    return _WARM[obs_name]


def related(cfg_name: str, obs_name: str) -> bool:
    ct = TAGS[cfg_name]
    if "knob" in ct:
        return True
    return bool(set(ct) & set(OBS_TAGS[obs_name]))


# callbacks that run at *compile* time of an observation (fault points)
FAULT_CALLBACKS = ["c09_camel", "c09_upper", "c09_sof_fields_callable", "c09_op1_from_int",
                   "c09_op1_from_str", "c09_op1_to_int", "c09_op1_lazy_getter", "c09_op1_lazy_ser_getter"]
