"""C09 check driver: systematic prefix + seeded random configuration histories, cold-fork
oracle, minimisation, replay, evidence."""
import json
import os
import time
from typing import Dict, List, Optional

from dst import boot, common, ddmin, proc
from dst.c09 import engine, pool

PROP = "C09"

TIERS = {
    "quick": {"random_runs": 1500, "budget_s": 240},
    "thorough": {"random_runs": 150000, "budget_s": 2400},
}


def evaluate(hist: dict) -> dict:
    got = proc.fork_call(engine.child_history, hist)
    ref = proc.fork_call(engine.child_reference, hist, timeout=120)
    v = engine.compare(hist, got, ref)
    xcheck = {}
    if hist.get("xcheck"):
        # reference cross-checks: the cold result must be a function of the final configuration
        # (net replay) and must not depend on the zygote (a brand-new interpreter)
        obs_idx = [i for i, op in enumerate(hist["ops"]) if op[0] == "obs"]
        if obs_idx:
            want = engine._strip(ref[str(obs_idx[-1])])
            if "net" in hist["xcheck"]:
                r = proc.fork_call(engine.child_final_only, engine.net_history(hist))
                xcheck["net"] = engine._strip(r) == want
            if "fresh" in hist["xcheck"]:
                r = engine.subprocess_final(hist)
                xcheck["fresh"] = engine._strip(r) == want
    allp, sens = engine.opportunities(hist, ref)
    n_obs = sum(1 for op in hist["ops"] if op[0] == "obs")
    fired = sum(1 for r in got if r and r[-1] == "fault-fired")
    states = [engine.state_digest(hist, i) for i, op in enumerate(hist["ops"]) if op[0] == "obs"]
    import hashlib

    rd = hashlib.blake2b(json.dumps([got, ref], sort_keys=True).encode(), digest_size=8).hexdigest()
    return {
        "violation": v,
        "xcheck": xcheck,
        "n_ops": len(hist["ops"]),
        "n_obs": n_obs,
        "n_cfg": len(hist["ops"]) - n_obs,
        "opps": allp,
        "sens": sens,
        "fault_fired": fired,
        "states": states,
        "digest": rd,
        "cfg_failed": sum(1 for i, op in enumerate(hist["ops"]) if op[0] == "cfg" and got[i][0] == "exc"),
        "obs_raising": sum(1 for i, op in enumerate(hist["ops"]) if op[0] == "obs" and ref[str(i)][0] == "exc"),
    }


def fingerprint(r: dict) -> list:
    v = r.get("violation")
    return [r["digest"], r["n_ops"], v["class"] if v else None]


def handler(task: dict) -> dict:
    hist = engine.make_history(task["index"], task["seed"], task["tier"], task.get("batch", 0))
    if task["tier"] == "thorough" and hist.get("block") == "R" and not hist.get("fault"):
        if task["seed"] % 50 == 0:
            hist["xcheck"] = ["fresh", "net"]
        elif task["seed"] % 10 == 1:
            hist["xcheck"] = ["net"]
    out = evaluate(hist)
    out["index"] = task["index"]
    out["seed"] = task["seed"]
    out["block"] = hist.get("block")
    out["fault"] = hist.get("fault")
    out["history"] = hist if (out["violation"] is not None or task["index"] % 997 == 0) else None
    return out


# ------------------------------------------------------------------ minimisation


def _items(hist: dict) -> List[list]:
    f = hist.get("fault")
    return [[op, (f if f and f["at"] == i else None)] for i, op in enumerate(hist["ops"])]


def _from_items(items: List[list], seed: int) -> dict:
    ops = [it[0] for it in items]
    fault = None
    for i, it in enumerate(items):
        if it[1] is not None:
            fault = dict(it[1], at=i)
    return {"seed": seed, "ops": ops, "fault": fault, "block": "min"}


def _same(v: Optional[dict], cls: str, opname: str) -> bool:
    return v is not None and v["class"] == cls and v["op"][1] == opname


def minimise(hist: dict, v: dict, budget_s: float = 90.0) -> dict:
    t0 = time.monotonic()
    cls, opname = v["class"], v["op"][1]

    def fails(items):
        if time.monotonic() - t0 > budget_s:
            return False
        h = _from_items(items, hist["seed"])
        if not h["ops"]:
            return False
        try:
            return _same(evaluate(h)["violation"], cls, opname)
        except proc.HarnessError:
            return False

    items = ddmin.ddmin(_items(hist), fails, budget=300)
    # drop the fault if it is not needed
    if any(it[1] for it in items):
        nf = [[it[0], None] for it in items]
        if fails(nf):
            items = nf
    return _from_items(items, hist["seed"])


# ------------------------------------------------------------------ known findings / replay


def signature(hist: dict, v: dict) -> dict:
    return {
        "class": v["class"],
        "obs": v["op"][1],
        "cfg": sorted({op[1] for op in hist["ops"] if op[0] == "cfg"}),
    }


def match_known(hist: dict, v: dict, known: List[dict]) -> Optional[dict]:
    sig = signature(hist, v)
    for k in known:
        if k.get("status") != "known":
            continue
        ks = k.get("signature", {})
        if ks.get("class") != sig["class"]:
            continue
        if "obs" in ks and sig["obs"] not in ks["obs"]:
            continue
        if "cfg" in ks and not set(sig["cfg"]) <= set(ks["cfg"]):
            continue
        return k
    return None


def replay(path: str) -> int:
    with open(path) as f:
        doc = json.load(f)
    r = evaluate(doc["history"])
    v = r["violation"]
    if v is not None:
        print("replayed: class=%s at=%d op=%s" % (v["class"], v["at"], v["op"]))
        print(json.dumps(v)[:1500])
        print("VIOLATION property=%s replay=%s" % (PROP, path))
        return 1
    print("replay: no violation (digest %s, recorded %s)" % (r["digest"], doc.get("digest")))
    return 0


def check_known(known: List[dict]) -> List[str]:
    lines = []
    for k in known:
        if k.get("status") == "known" and k.get("replay"):
            with open(os.path.join(common.VERIF, k["replay"])) as f:
                doc = json.load(f)
            r = evaluate(doc["history"])
            if r["violation"] is not None:
                lines.append("KNOWN-FINDING: property=%s %s" % (PROP, k["what"]))
    return lines


# ------------------------------------------------------------------ main


class Agg:
    def __init__(self):
        self.runs = 0
        self.blocks: Dict[str, int] = {}
        self.ops = 0
        self.obs = 0
        self.cfg = 0
        self.opps = set()
        self.sens = set()
        self.opp_total = 0
        self.states = set()
        self.digests = set()
        self.fault_armed = 0
        self.fault_fired = 0
        self.cfg_failed = 0
        self.obs_raising = 0
        self.samples = []
        self.harness_errors: List[str] = []
        self.xchecks: Dict[str, int] = {}
        self.maxlen = 0

    def add(self, r: dict):
        self.runs += 1
        self.blocks[r["block"]] = self.blocks.get(r["block"], 0) + 1
        self.ops += r["n_ops"]
        self.obs += r["n_obs"]
        self.cfg += r["n_cfg"]
        self.opps.update(r["opps"])
        self.sens.update(r["sens"])
        self.opp_total += len(r["opps"])
        self.states.update(r["states"])
        self.digests.add(r["digest"])
        if r["fault"]:
            self.fault_armed += 1
            self.fault_fired += 1 if r["fault_fired"] else 0
        for k, ok in r.get("xcheck", {}).items():
            self.xchecks[k] = self.xchecks.get(k, 0) + 1
            if not ok:
                self.harness_errors.append("reference cross-check %s disagrees at history %d" % (k, r["index"]))
        self.cfg_failed += r["cfg_failed"]
        self.obs_raising += r["obs_raising"]
        self.maxlen = max(self.maxlen, r["n_ops"])
        if r.get("history") and len(self.samples) < 5 and r["violation"] is None:
            self.samples.append({"run": r["index"], "seed": r["seed"], "history": r["history"]})

    def coverage(self, wall, tier, sys_counts, n_random, budget) -> dict:
        all_cfg = set(pool.CFG)
        sens_cfg = {k.split("|")[0] for k in self.sens}
        opp_cfg = {k.split("|")[0] for k in self.opps}
        return {
            "evaluations": self.obs,
            "distinct_nontrivial": len(self.sens),
            "rule": (
                "one evaluation = one observation (deserialize / serialize / schema call) of a history compared "
                "with the same observation made cold, in a process forked from the pristine zygote that replayed "
                "only the configuration operations before it; distinct_nontrivial = number of distinct "
                "(configuration operation, observation) pairs for which the history observed, then applied the "
                "operation, then observed again AND the two cold results differ, i.e. a missed invalidation "
                "would have been visible"
            ),
            "samples": self.samples,
            "histories": self.runs,
            "histories_by_block": self.blocks,
            "systematic_prefix": sys_counts,
            "random_histories_requested": n_random,
            "budget_s": budget,
            "histories_per_hour": int(self.runs / wall * 3600) if wall > 0 else 0,
            "operations": self.ops,
            "configuration_operations_applied": self.cfg,
            "longest_history": self.maxlen,
            "simulated_time": "none - no clock in apischema; the unit is one operation of the history",
            "staleness_opportunities_total": self.opp_total,
            "staleness_opportunity_pairs": len(self.opps),
            "sensitive_pairs": len(self.sens),
            "cfg_ops_in_alphabet": len(all_cfg),
            "cfg_ops_with_opportunity": len(opp_cfg),
            "cfg_ops_with_sensitive_observation": len(sens_cfg),
            "cfg_ops_never_sensitive": sorted(all_cfg - sens_cfg),
            "distinct_abstract_states": len(self.states),
            "distinct_history_digests": len(self.digests),
            "faults": {
                "callback_fault_armed_histories": self.fault_armed,
                "callback_fault_fired_histories": self.fault_fired,
                "aborted_or_failing_configuration_ops": self.cfg_failed,
                "cache_size_knob": "cache.set_size.{1,2,8,128} are operations of the alphabet",
            },
            "observations_raising_cold": self.obs_raising,
            "reference_cross_checks": {"net_replay_of_settings": self.xchecks.get("net", 0),
                                       "brand_new_interpreter": self.xchecks.get("fresh", 0),
                                       "note": "thorough tier only; a disagreement is a harness error, not a verdict"},
            "components": {
                "real": ["apischema (all of it, from the working tree)", "functools.lru_cache", "fork()ed cold reference"],
                "stub": ["probe classes, converters, validators, aliasers (dst/c09/pool.py)"],
            },
            "aslr_off": boot.aslr_off,
            "harness_errors": len(self.harness_errors),
            "tree": boot.tree_fingerprint(),
        }


def main(tier: str, replay_path: Optional[str] = None, runs: Optional[int] = None,
         budget_s: Optional[float] = None, start: int = 0) -> int:
    timer = common.Timer()
    boot.load_apischema()
    from dst.c20.engine import assert_pristine

    assert_pristine()
    if replay_path:
        return replay(replay_path)
    cfg = TIERS[tier]
    batch = common.batch_seed()
    sys_h, sys_counts = engine.systematic(tier, batch)
    n_random = runs if runs is not None else common.env_int("VERIF_RUNS", cfg["random_runs"])
    budget = budget_s if budget_s is not None else common.env_float("VERIF_BUDGET_S", cfg["budget_s"])
    known = common.load_known(PROP)
    for line in check_known(known):
        print(line)
    deadline = time.monotonic() + budget
    n_p = len(sys_h) - sys_counts["core"]
    n_random = n_random if runs is not None else engine.RANDOM_PER_TIER[tier]
    total = sys_counts["core"] + n_p + n_random
    if start:
        idx = range(start, start + n_random)
    else:
        idx = range(0, total)
    tasks = ({"index": i, "seed": engine.run_seed(PROP, batch, i), "tier": tier, "batch": batch} for i in idx)
    agg = Agg()
    violations = []
    for res in proc.pool_map(handler, tasks, deadline=deadline, stop=lambda: len(violations) >= 40):
        if "harness_error" in res:
            agg.harness_errors.append(res["harness_error"][-600:])
            continue
        r = res["ok"]
        agg.add(r)
        if r["violation"] is not None:
            violations.append(r)

    rc = 0
    reported = 0
    seen = set()
    known_seen = set()
    for r in sorted(violations, key=lambda x: x["index"]):
        hist, v = r["history"], r["violation"]
        try:
            rr = evaluate(hist)
        except proc.HarnessError as e:
            agg.harness_errors.append(str(e)[-600:])
            continue
        if not _same(rr["violation"], v["class"], v["op"][1]):
            agg.harness_errors.append("violation at history %d did not reproduce" % r["index"])
            continue
        if len(seen) >= 6:
            break
        m = minimise(hist, v, budget_s=common.env_float("VERIF_MINIMISE_S", 60.0))
        fin = evaluate(m)
        if fin["violation"] is None:
            m, fin = hist, rr
        k = match_known(m, fin["violation"], known)
        if k is not None:
            if k["id"] not in known_seen:
                known_seen.add(k["id"])
                print("KNOWN-FINDING: property=%s %s" % (PROP, k["what"]))
            continue
        sig = json.dumps(signature(m, fin["violation"]), sort_keys=True)
        if sig in seen:
            continue
        seen.add(sig)
        doc = {
            "property": PROP, "tree": boot.tree_fingerprint(), "batch_seed": batch, "run": r["index"],
            "history": m, "original_length": len(hist["ops"]), "violation": fin["violation"],
            "digest": fin["digest"],
            "how": "./check C09 --replay <this file>  (history child vs cold reference forked from the zygote)",
        }
        path = common.write_replay(PROP, "%d-%d" % (batch, r["index"]), doc)
        common.log("violation: history %d class=%s minimised %d -> %d ops: %s" % (
            r["index"], v["class"], len(hist["ops"]), len(m["ops"]), json.dumps(m["ops"])))
        common.log(json.dumps(fin["violation"])[:800])
        print("VIOLATION property=%s replay=%s" % (PROP, path))
        reported += 1
        rc = 1

    wall = timer.elapsed()
    cov = agg.coverage(wall, tier, sys_counts, n_random, budget)
    cov["violating_histories_before_dedup"] = len(violations)
    common.write_evidence(
        PROP, tier, batch, "exploration", cov, wall, reported,
        assumptions=[
            "reference model = the same tree run cold: a process forked from the pristine zygote replays only the "
            "configuration operations and forks once more for each single observation",
            "every object installed by a configuration operation is pre-built in the zygote, so history and "
            "reference install identical objects; class definition is not an operation",
            "the workload holds no method across a change (the property excuses only those)",
            "types equal up to Union/Literal argument order are excluded from generation (known finding, replayed "
            "separately)",
            "sampling beyond the systematic prefix: a clean batch is evidence, not proof",
        ],
    )
    if agg.harness_errors:
        common.log("HARNESS ERRORS (%d), first: %s" % (len(agg.harness_errors), agg.harness_errors[0]))
        if rc == 0:
            return 2
    common.log("C09 %s: %d histories (%s), %d observations compared, %d sensitive pairs, %.1fs, violations=%d" % (
        tier, agg.runs, agg.blocks, agg.obs, len(agg.sens), wall, reported))
    return rc
