"""C09 -- cached methods never go stale: histories, execution, cold-fork oracle.

A *history* is JSON: {"seed":…, "ops":[["cfg",name] | ["obs",name] …],
"fault": null | {"at": index of an obs, "cb": callback name or "*", "n": k}}.

* ``child_history``   applies every operation in order in one process (the system under
  test: caches survive from one operation to the next);
* ``child_reference`` is forked from the pristine zygote, replays **only the
  configuration operations**, and at every observation index forks a grandchild that
  performs that single observation on caches that were never filled: the literal
  "cold start with the same final configuration".
"""
import hashlib
import random
from typing import Dict, List, Optional, Tuple

from dst import canon, proc
from dst.c09 import pool
from dst.c20.engine import run_seed  # noqa: F401  (same seed derivation)


def _run(fn, arm=None) -> list:
    ctx = pool.CTX
    ctx.armed = arm
    ctx.count = 0
    fired0 = ctx.fired
    try:
        try:
            res = ["ok", canon.canon(fn())]
        except Exception as e:
            res = canon.canon_exc(e)
    finally:
        ctx.armed = None
    if ctx.fired != fired0:
        res = res + ["fault-fired"]
    return res


def apply_op(op: list, arm=None) -> list:
    kind, name = op[0], op[1]
    if kind == "cfg":
        return _run(pool.CFG[name])
    if kind == "obs":
        return _run(pool.OBS[name], arm)
    if kind == "warm":
        # the other observations about the same type, made and not compared (history only)
        for o in pool.warm_set(name):
            _run(pool.OBS[o])
        return ["ok", None]
    raise ValueError(op)


def _arm(hist: dict, i: int):
    f = hist.get("fault")
    if f and f["at"] == i:
        return [f["cb"], f["n"]]
    return None


def child_history(hist: dict) -> List[list]:
    return [apply_op(op, _arm(hist, i)) for i, op in enumerate(hist["ops"])]


def _observe(op: list) -> list:
    return apply_op(op)


def child_reference(hist: dict) -> Dict[str, list]:
    out: Dict[str, list] = {}
    for i, op in enumerate(hist["ops"]):
        if op[0] == "cfg":
            out[str(i)] = apply_op(op)
        elif op[0] == "warm":
            out[str(i)] = ["ok", None]  # a cold start has no earlier calls
        else:
            out[str(i)] = proc.fork_call(_observe, op)
    return out


def _strip(r: list) -> list:
    return r[:3] if r and r[0] == "exc" else r[:2]


def compare(hist: dict, got: List[list], ref: Dict[str, list]) -> Optional[dict]:
    f = hist.get("fault")
    for i, op in enumerate(hist["ops"]):
        g, e = _strip(got[i]), _strip(ref[str(i)])
        if g == e:
            continue
        if f and f["at"] == i and got[i][-1] == "fault-fired":
            # the one operation inside which a fault actually fired is excused (it may end with
            # InjectedFault, or degraded where apischema deliberately swallows exceptions of
            # user callables); every other operation keeps the exact oracle
            continue
        if op[0] == "cfg":
            return {"class": "cfg-mismatch", "at": i, "op": op, "expected": e, "got": g}
        return {"class": "stale", "at": i, "op": op, "expected": e, "got": g}
    return None


# ------------------------------------------------------------------ history generation


def systematic_blocks(p_mod: int = 1, p_rot: int = 0) -> Tuple[List[dict], Dict[str, int]]:
    """The guaranteed prefix: every related (change, observation) pair once, replace /
    remove pairs inside one area, and the crash-point walk of compilation."""
    hs: List[dict] = []
    counts = {}
    cfgs = sorted(pool.CFG)
    obs = sorted(pool.GENERATION_OBS)
    # A: observe, change, observe
    for c in cfgs:
        for o in obs:
            if pool.related(c, o):
                hs.append({"ops": [["obs", o], ["warm", o], ["cfg", c], ["obs", o]], "fault": None, "block": "A"})
    counts["A"] = len(hs)
    # B: observe, change, change again inside the same area (replace / remove), observe
    nb = 0
    for area in sorted(pool.AREAS):
        names = pool.AREAS[area]
        for c1 in names:
            for c2 in names:
                if c1 == c2:
                    continue
                rel = [o for o in obs if pool.related(c1, o) or pool.related(c2, o)]
                rel.sort(key=lambda o: (not (pool.same_target(c1, o) or pool.same_target(c2, o)),
                                        hashlib.blake2b((c1 + c2 + o).encode(), digest_size=4).digest()))
                for o in rel[: (4 if p_mod == 1 else 3)]:
                    hs.append({"ops": [["obs", o], ["cfg", c1], ["obs", o], ["warm", o], ["cfg", c2], ["obs", o]],
                               "fault": None, "block": "B"})
                    nb += 1
    counts["B"] = nb
    # K: a cache-size change first, then observe / change / observe (old wrappers left behind?)
    nk = 0
    knobs = [c for c in cfgs if c.startswith("cache.set_size.")]
    for kn in knobs:
        for c in cfgs:
            if "knob" in pool.TAGS[c]:
                continue
            rel = [o for o in obs if pool.related(c, o)]
            rel.sort(key=lambda o: hashlib.blake2b((kn + c + o).encode(), digest_size=4).digest())
            for o in rel[:2]:
                hs.append({"ops": [["cfg", kn], ["obs", o], ["warm", o], ["cfg", c], ["obs", o]], "fault": None, "block": "K"})
                nk += 1
    counts["K"] = nk
    # C: crash points of compilation: fail the k-th callback of an observation made under a
    # configuration that installs callbacks, then observe again without fault
    nc = 0
    installers = [
        (["set.aliaser.1"], "alias"), (["set.aliaser.2"], "alias"), (["alias.AL.upper"], "alias"),
        (["set_object_fields.SOF.callable"], "fields"),
        (["deserializer.Op1.from_int", "deserializer.Op1.from_str"], "conv_d"),
        (["serializer.Op1.to_int"], "conv_s"),
        (["deserializer.Op1.lazy_list"], "conv_d"),
        (["serializer.Op1.lazy_str"], "conv_s"),
    ]
    for cfg_list, tag in installers:
        for o in obs:
            if tag not in pool.OBS_TAGS[o]:
                continue
            for k in (1, 2, 3, 5, 8, 13):
                ops = [["cfg", c] for c in cfg_list] + [["obs", o], ["obs", o]]
                hs.append({"ops": ops, "fault": {"at": len(cfg_list), "cb": "*", "n": k}, "block": "C"})
                nc += 1
    counts["C"] = nc
    # F: a registration that fails (raises half-way or is rejected) must not disable or skip
    # later invalidation: observe, failing operation, ordinary change, observe
    nf = 0
    failing = [c for c in cfgs if "failing" in pool.TAGS[c]]
    a_pairs = [(c, o) for c in cfgs for o in obs if pool.related(c, o) and "knob" not in pool.TAGS[c]
               and "failing" not in pool.TAGS[c]]
    for n_, (c, o) in enumerate(a_pairs):
        if n_ % 9:
            continue
        f = failing[(n_ // 9) % len(failing)]
        hs.append({"ops": [["obs", o], ["warm", o], ["cfg", f], ["cfg", c], ["obs", o]], "fault": None, "block": "F"})
        nf += 1
    counts["F"] = nf
    # P: cross-area pairs: two configuration operations of different areas related to the same
    # observation (e.g. a field validator, then a class aliaser that renames its error location)
    area_of = {c: a for a, names in pool.AREAS.items() for c in names}
    np_ = 0
    nq = 0
    for o in obs:
        rel = [c for c in cfgs if pool.related(c, o) and "knob" not in pool.TAGS[c]]
        for c1 in rel:
            for c2 in rel:
                if area_of[c1] == area_of[c2]:
                    continue
                # Q (always complete): the two operations share a tag among themselves and at
                # least one of them names the observed type
                close = bool(set(pool.TAGS[c1]) & set(pool.TAGS[c2])) and (
                    pool.same_target(c1, o) or pool.same_target(c2, o))
                if close:
                    hs.append({"ops": [["cfg", c1], ["obs", o], ["warm", o], ["cfg", c2], ["obs", o]], "fault": None, "block": "Q"})
                    nq += 1
                    continue
                if p_mod > 1:
                    hv = int.from_bytes(hashlib.blake2b((c1 + "|" + c2 + "|" + o).encode(), digest_size=4).digest(), "big")
                    if hv % p_mod != p_rot % p_mod:
                        continue
                hs.append({"ops": [["cfg", c1], ["obs", o], ["warm", o], ["cfg", c2], ["obs", o]], "fault": None, "block": "P"})
                np_ += 1
    counts["P"] = np_
    counts["Q"] = nq
    # the core blocks first; P (the long tail of cross-area pairs) afterwards, interleaved with
    # the random histories by make_history
    core = [h for h in hs if h["block"] != "P"]
    tail = [h for h in hs if h["block"] == "P"]
    counts["core"] = len(core)
    return core + tail, counts


_SYS: Dict[tuple, tuple] = {}

# quick tier runs 1/P_MOD_QUICK of the cross-area block P (which part rotates with VERIF_SEED);
# the thorough tier runs all of it
P_MOD_QUICK = 96
# random histories interleaved 1:1 with block P (the rest of the longer one follows)
RANDOM_PER_TIER = {"quick": 1500, "thorough": 150000}


def systematic(tier: str = "quick", batch: int = 0) -> Tuple[List[dict], Dict[str, int]]:
    key = (1, 0) if tier == "thorough" else (P_MOD_QUICK, batch % P_MOD_QUICK)
    if key not in _SYS:
        _SYS[key] = systematic_blocks(*key)
    return _SYS[key]


def random_history(seed: int, tier: str) -> dict:
    rng = random.Random(seed)
    areas = sorted(pool.AREAS)
    # swarm: a sub-alphabet of 2..7 areas (sometimes everything), knobs in a quarter of runs
    k = rng.choice([2, 3, 3, 4, 5, 7, len(areas)])
    chosen = rng.sample(areas, min(k, len(areas)))
    if rng.random() < 0.25:
        chosen = list(set(chosen) | {"cache"})
    elif "cache" in chosen and rng.random() < 0.7:
        chosen.remove("cache")
    if not chosen:
        chosen = [rng.choice(areas)]
    cfgs = [c for a in chosen for c in pool.AREAS[a]]
    rel_obs = [o for o in pool.GENERATION_OBS if any(pool.related(c, o) for c in cfgs if "knob" not in pool.TAGS[c])]
    if not rel_obs:
        rel_obs = list(pool.GENERATION_OBS)
    focus = rng.sample(rel_obs, min(len(rel_obs), rng.choice([1, 2, 3, 5, 8])))
    length = rng.choice([3, 4, 5, 6, 8, 10, 14, 20, 30, 40] if tier == "thorough" else [3, 4, 5, 6, 8, 10, 14, 20])
    p_obs = rng.choice([0.35, 0.5, 0.65])
    ops = []
    for _ in range(length):
        if rng.random() < 0.08:
            ops.append(["warm", rng.choice(focus)])
        elif rng.random() < p_obs:
            if rng.random() < 0.85:
                ops.append(["obs", rng.choice(focus)])
            else:
                ops.append(["obs", rng.choice(pool.GENERATION_OBS)])
        else:
            ops.append(["cfg", rng.choice(cfgs)])
    if ops[-1][0] != "obs":
        ops.append(["obs", rng.choice(focus)])
    fault = None
    if rng.random() < 0.25:
        idx = [i for i, op in enumerate(ops) if op[0] == "obs"]
        fault = {"at": rng.choice(idx), "cb": "*", "n": rng.choice([1, 1, 2, 3, 5])}
    return {"ops": ops, "fault": fault, "block": "R"}


def make_history(index: int, seed: int, tier: str, batch: int = 0) -> dict:
    sys_h, counts = systematic(tier, batch)
    n_core = counts["core"]
    if index < n_core:
        h = dict(sys_h[index])
    else:
        # beyond the core: even offsets walk block P while it lasts, odd offsets are random
        k = index - n_core
        n_p = len(sys_h) - n_core
        n_r = RANDOM_PER_TIER[tier]
        if k < 2 * min(n_p, n_r):
            h = dict(sys_h[n_core + k // 2]) if k % 2 == 0 else random_history(seed, tier)
        elif n_p > n_r and k - n_r < n_p:
            h = dict(sys_h[n_core + k - n_r])
        else:
            h = random_history(seed, tier)
    h["seed"] = seed
    return h


# ------------------------------------------------------------------ reach


def opportunities(hist: dict, ref: Dict[str, list]) -> Tuple[List[str], List[str]]:
    """(all, sensitive) staleness opportunities 'cfg|obs' of one history: the observation
    was made, then a related configuration operation happened, then it was made again;
    sensitive = its cold results before and after differ."""
    last_seen: Dict[str, int] = {}
    allp, sens = [], []
    ops = hist["ops"]
    for i, op in enumerate(ops):
        if op[0] != "obs":
            continue
        o = op[1]
        if o in last_seen:
            j = last_seen[o]
            between = [ops[x][1] for x in range(j + 1, i) if ops[x][0] == "cfg"]
            if between:
                changed = _strip(ref[str(j)]) != _strip(ref[str(i)])
                for c in between:
                    key = "%s|%s" % (c, o)
                    allp.append(key)
                    if changed:
                        sens.append(key)
        last_seen[o] = i
    return allp, sens


def state_digest(hist: dict, upto: int) -> str:
    """Abstract state at an observation: the configuration operations applied so far
    (as a multiset-insensitive sequence digest) + what was already observed (warm set)."""
    h = hashlib.blake2b(digest_size=8)
    cfgs = [op[1] for op in hist["ops"][:upto] if op[0] == "cfg"]
    warm = sorted({op[1] for op in hist["ops"][:upto] if op[0] == "obs"})
    h.update(repr((cfgs, warm, hist["ops"][upto][1])).encode())
    return h.hexdigest()


# ------------------------------------------------------------------ reference cross-checks (thorough tier)


def net_history(hist: dict) -> dict:
    """Same final configuration, shorter way there: only the last assignment of each setting
    is kept (registrations are all kept: registries accumulate)."""
    last = {}
    for i, op in enumerate(hist["ops"]):
        if op[0] == "cfg" and op[1].startswith("set."):
            key = ".".join(op[1].split(".")[:-1])
            if key == "set.camel_case":
                key = "set.aliaser"
            last[key] = i
    keep = set(last.values())
    ops = []
    for i, op in enumerate(hist["ops"]):
        if op[0] == "cfg" and op[1].startswith("set.") and i not in keep:
            continue
        ops.append(op)
    return {"seed": hist.get("seed", 0), "ops": ops, "fault": None, "block": "net"}


def child_final_only(hist: dict) -> list:
    """cold: all configuration operations, then only the last observation"""
    last = None
    for op in hist["ops"]:
        if op[0] == "cfg":
            apply_op(op)
        elif op[0] == "obs":
            last = op
    return apply_op(last) if last is not None else ["none"]


def subprocess_final(hist: dict) -> list:
    """The same in a brand-new interpreter (not forked from the zygote)."""
    import json
    import os
    import subprocess
    import sys

    env = dict(os.environ)
    env.pop("DST_BOOTED", None)
    p = subprocess.run([sys.executable, "-B", "-m", "dst.cli", "c09-final"], input=json.dumps(hist),
                       capture_output=True, text=True, env=env,
                       cwd=os.path.dirname(os.path.dirname(os.path.dirname(os.path.abspath(__file__)))), timeout=120)
    if p.returncode != 0:
        raise proc.HarnessError("fresh interpreter failed: " + p.stderr[-400:])
    return json.loads(p.stdout.strip().splitlines()[-1])
