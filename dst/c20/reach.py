"""Which workload operations reach which lazy-initialisation site (site-directed plans).

For every (type, operation kind) of the C20 workload one child forked from the pristine
zygote executes that single first use under a recording tracer and reports the
lazy-initialisation lines (dst/c20/sites.py) it executed.  The inverse map -- site line ->
operations reaching it -- lets the plan generator give every site of the tree under test its
share of runs: pick a site, pick two operations that reach it (preferably on the same type,
preferably one of them a schema generation, which takes no lock), park the first thread to
arrive on that site and let the other one through.

The map is a pure function of the tree and the workload; it is computed once per check run,
before the workers are forked, and recorded in the evidence.
"""
import os
import sys
from typing import Dict, List, Set, Tuple

from dst import boot, proc

KINDS = ["des", "ser", "des_schema", "ser_schema"]

REACH: Dict[str, List[List[str]]] = {}
STATS: Dict[str, int] = {}


def _probe(tname: str, kind: str, site_list: List[Tuple[str, int]]) -> List[str]:
    from dst.c20 import engine, pool

    sites: Set[Tuple[str, int]] = set(map(tuple, site_list))
    files = {f for f, _ in sites}
    hit: Set[Tuple[str, int]] = set()
    base = boot.apischema_dir()

    def local(frame, event, arg):
        if event == "line":
            k = (frame.f_code.co_filename, frame.f_lineno)
            if k in sites:
                hit.add(k)
        return local

    def glob(frame, event, arg):
        return local if frame.f_code.co_filename in files else None

    if kind in ("des",) and not pool.DATA[tname]:
        return []
    if kind in ("ser",) and not pool.VALUES[tname]:
        return []
    sys.settrace(glob)
    try:
        engine.run_op([kind, tname, 0, "default"])
    finally:
        sys.settrace(None)
    return sorted("%s:%d" % (f[len(base):], ln) for f, ln in hit)


def _task(t):
    # one forked child per probe: every probe is a cold first use
    return proc.fork_call(_probe, t[0], t[1], t[2])


def compute() -> Dict[str, List[List[str]]]:
    """Fill REACH (idempotent). Must run before the worker pool is forked."""
    global REACH, STATS
    if REACH:
        return REACH
    from dst.c20 import pool, sites as _sites

    site_map = _sites.scan(boot.apischema_dir())
    site_list = sorted((f, ln) for f, ls in site_map.items() for ln in ls)
    tasks = [[t, k, site_list] for t in sorted(pool.TYPES) for k in KINDS]
    reach: Dict[str, List[List[str]]] = {}
    failed = 0
    for res in proc.pool_map(_task, tasks):
        if "harness_error" in res:
            failed += 1
            continue
        t, k = res["task"][0], res["task"][1]
        for key in res["ok"]:
            reach.setdefault(key, []).append([k, t])
    for key in reach:
        reach[key].sort()
    REACH = dict(sorted(reach.items()))
    STATS = {
        "site_lines_in_tree": len(site_list),
        "site_lines_reached_by_workload": len(REACH),
        "probes": len(tasks),
        "probe_failures": failed,
    }
    return REACH


_CLUSTERS: List[List[str]] = []


def clusters() -> List[List[str]]:
    """Reached site keys grouped: same file, consecutive lines at most six apart."""
    global _CLUSTERS
    if _CLUSTERS:
        return _CLUSTERS
    by_file: Dict[str, List[int]] = {}
    for key in REACH:
        f, ln = key.rsplit(":", 1)
        by_file.setdefault(f, []).append(int(ln))
    out: List[List[str]] = []
    for f in sorted(by_file):
        cur: List[int] = []
        for ln in sorted(by_file[f]):
            if cur and ln - cur[-1] > 6:
                out.append(["%s:%d" % (f, x) for x in cur])
                cur = []
            cur.append(ln)
        if cur:
            out.append(["%s:%d" % (f, x) for x in cur])
    _CLUSTERS = out
    STATS["site_clusters_reached"] = len(out)
    return out
