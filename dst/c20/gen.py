"""Generated class graphs for the C20 workload.

``build(seed, n)`` produces ``n`` families of 2-5 dataclasses whose reference structure
(direct / Optional / List / Dict / Tuple / Optional[List] edges, self loops, cycles of
length 2-4, diamonds, DAG-only families, generic wrappers of a recursive class) is drawn
from a PRNG, executes the source once in the zygote (module ``dst_c20_gen``) and
registers types, JSON inputs (valid and one-leaf-corrupted) and value thunks in the C20
pool.  The shape decides which recursion-analysis subtrees one checker can find already
cached by another, i.e. where the interesting interleavings are; a fixed hand-written
catalog cannot cover that.  The generator seed is part of the plan / replay file.
"""
import random
import sys
import types
from typing import Any, Dict, List, Tuple

SCALARS = ["int", "str", "optint"]
REFS = ["direct", "opt", "list", "dict", "tuple", "optlist"]


def gen_family(rng: random.Random, k: int) -> dict:
    """A spanning tree over the classes (parent -> child edges through any wrapper), optional
    self loops, and at most one back edge into the root: every class has at most one incoming
    edge from another class.

    The restriction is deliberate.  apischema's *sequential* recursion analysis is unsound as
    soon as a node already cached earlier in the same analysis is reached again by a second
    path while one of its ancestors is still being visited (the skipped subtree hides the cycle,
    the wrapper on the second path is recorded "not recursive" and the next compilation through
    it recurses forever).  That is a sequential defect outside C20 (DESIGN 12.2); with it the
    result of a call depends on which type was used first, so such shapes cannot serve as a
    workload whose oracle is "what the call returns sequentially"."""
    m = rng.randint(2, 6)
    names = ["G%d_%d" % (k, i) for i in range(m)]
    style = rng.choice(["ring", "ring", "ring", "self", "tree", "chain"])
    parent = [None] + [rng.randrange(i) for i in range(1, m)]
    if style == "chain":
        parent = [None] + list(range(m - 1))
    back_from = rng.randrange(1, m) if style in ("ring", "chain") else None
    back_kinds = [x for x in REFS if x != "direct"]
    classes = []
    for i, n in enumerate(names):
        fields = []
        for j in range(rng.randint(1, 2)):
            fields.append(["s%d" % j, rng.choice(SCALARS), None])
        for c in range(m):
            if parent[c] == i:
                fields.append(["c%d" % c, rng.choice(REFS), c])
        if back_from == i:
            fields.append(["b0", rng.choice(back_kinds), 0])
        if style != "tree" and rng.random() < (0.7 if style == "self" else 0.25):
            fields.append(["me", rng.choice(back_kinds), i])
        classes.append({"name": n, "fields": fields})
    return {"k": k, "names": names, "classes": classes, "style": style}


def render_family(fam: dict) -> str:
    out = []
    names = fam["names"]
    for c in fam["classes"]:
        out.append("@dataclass")
        out.append("class %s:" % c["name"])
        req, opt = [], []
        for fname, kind, t in c["fields"]:
            tn = repr(names[t]) if t is not None else None
            if kind == "int":
                req.append("%s: int" % fname)
            elif kind == "str":
                opt.append("%s: str = ''" % fname)
            elif kind == "optint":
                opt.append("%s: Optional[int] = None" % fname)
            elif kind == "direct":
                req.append("%s: %s" % (fname, tn))
            elif kind == "opt":
                opt.append("%s: Optional[%s] = None" % (fname, tn))
            elif kind == "list":
                opt.append("%s: List[%s] = field(default_factory=list)" % (fname, tn))
            elif kind == "dict":
                opt.append("%s: Dict[str, %s] = field(default_factory=dict)" % (fname, tn))
            elif kind == "tuple":
                opt.append("%s: Optional[Tuple[%s, int]] = None" % (fname, tn))
            elif kind == "optlist":
                opt.append("%s: Optional[List[%s]] = None" % (fname, tn))
        for line in req + opt:
            out.append("    " + line)
        out.append("")
    return "\n".join(out)


def _data(rng: random.Random, fam: dict, ci: int, depth: int) -> dict:
    c = fam["classes"][ci]
    d: Dict[str, Any] = {}
    for fname, kind, t in c["fields"]:
        if kind == "int":
            d[fname] = rng.randint(0, 9)
        elif kind == "str":
            if rng.random() < 0.5:
                d[fname] = "s%d" % rng.randint(0, 9)
        elif kind == "optint":
            if rng.random() < 0.5:
                d[fname] = rng.choice([None, 1, 2])
        elif kind == "direct":
            d[fname] = _data(rng, fam, t, max(depth - 1, 0))
        elif depth <= 0 or rng.random() < 0.35:
            continue
        elif kind == "opt":
            d[fname] = _data(rng, fam, t, depth - 1)
        elif kind == "list":
            d[fname] = [_data(rng, fam, t, depth - 1) for _ in range(rng.randint(1, 2))]
        elif kind == "dict":
            d[fname] = {"k%d" % i: _data(rng, fam, t, depth - 1) for i in range(rng.randint(1, 2))}
        elif kind == "tuple":
            d[fname] = [_data(rng, fam, t, depth - 1), rng.randint(0, 9)]
        elif kind == "optlist":
            d[fname] = [_data(rng, fam, t, depth - 1)]
    return d


def _corrupt(rng: random.Random, d: Any) -> bool:
    """turn one int leaf into a str (in place); True if something was changed"""
    if isinstance(d, dict):
        keys = list(d)
        rng.shuffle(keys)
        for k in keys:
            if isinstance(d[k], int) and not isinstance(d[k], bool):
                d[k] = "bad"
                return True
            if _corrupt(rng, d[k]):
                return True
    elif isinstance(d, list):
        for i, x in enumerate(d):
            if isinstance(x, int) and not isinstance(x, bool):
                d[i] = "bad"
                return True
            if _corrupt(rng, x):
                return True
    return False


def _value(ns: dict, fam: dict, ci: int, d: dict):
    c = fam["classes"][ci]
    kw = {}
    for fname, kind, t in c["fields"]:
        if fname not in d:
            continue
        v = d[fname]
        if kind in ("int", "str", "optint"):
            kw[fname] = v
        elif kind in ("direct", "opt"):
            kw[fname] = _value(ns, fam, t, v)
        elif kind in ("list", "optlist"):
            kw[fname] = [_value(ns, fam, t, x) for x in v]
        elif kind == "dict":
            kw[fname] = {k: _value(ns, fam, t, x) for k, x in v.items()}
        elif kind == "tuple":
            kw[fname] = (_value(ns, fam, t, v[0]), v[1])
    return ns[c["name"]](**kw)


def _probe_family(ns: dict, fam: dict) -> bool:
    """(in a forked child) every class of the family, cold-ish: compile both directions"""
    import apischema

    for c in fam["classes"]:
        cls = ns[c["name"]]
        for fn in (apischema.deserialization_method, apischema.serialization_method):
            try:
                fn(cls)
            except RecursionError:
                return False
            except Exception:
                pass
        apischema.cache.reset()
    # and warm, in both orders of first use (a wrong "not recursive" cached by one entry point
    # would make a later one recurse)
    for order in (fam["classes"], list(reversed(fam["classes"]))):
        for c in order:
            for fn in (apischema.deserialization_method, apischema.serialization_method):
                try:
                    fn(ns[c["name"]])
                except RecursionError:
                    return False
                except Exception:
                    pass
        apischema.cache.reset()
    return True


HEADER = (
    "from dataclasses import dataclass, field\n"
    "from typing import Dict, List, Optional, Tuple\n\n"
)

BUILT = {}


def build(seed: int, n: int, pool) -> dict:
    """Generate, exec and register n families in ``pool``; idempotent per (seed, n)."""
    import copy
    from typing import Dict as TDict, List as TList, Optional as TOptional

    key = (seed, n)
    if key in BUILT:
        return BUILT[key]
    rng = random.Random(seed * 1000003 + 17)
    fams = [gen_family(rng, k) for k in range(n)]
    src = HEADER + "\n".join(render_family(f) for f in fams)
    mod = types.ModuleType("dst_c20_gen")
    sys.modules["dst_c20_gen"] = mod
    exec(compile(src, "<dst_c20_gen>", "exec"), mod.__dict__)
    ns = mod.__dict__
    # Drop families on which a *cold, single-threaded* first use already raises RecursionError:
    # the sequential recursion analysis is unsound for some shapes (a subtree skipped because it
    # was cached earlier in the same analysis hides a cycle through a guard ancestor), which is
    # a sequential defect outside C20 and would make the sequential semantics order-dependent.
    from dst import proc

    dropped = []
    kept = []
    for fam in fams:
        try:
            ok = proc.fork_call(_probe_family, ns, fam)
        except proc.HarnessError:
            ok = False
        (kept if ok else dropped).append(fam)
    fams = kept
    for fam in fams:
        group = "gen%d" % fam["k"]
        for ci, c in enumerate(fam["classes"]):
            cls = ns[c["name"]]
            datas, thunks = [], []
            for depth in (1, 2, 1):
                d = _data(rng, fam, ci, depth)
                datas.append(d)
                thunks.append((lambda fam=fam, ci=ci, d=d: _value(ns, fam, ci, copy.deepcopy(d))))
            bad = copy.deepcopy(datas[0])
            if _corrupt(rng, bad):
                datas.append(bad)
            datas.append([])
            pool.reg(c["name"], cls, datas, thunks[:2], group)
        # container / optional entry points over the first class: other lru keys, same analysis
        c0 = fam["classes"][0]["name"]
        cls0 = ns[c0]
        d0 = pool.DATA[c0][0]
        v0 = pool.VALUES[c0][0]
        pool.reg("List_" + c0, TList[cls0], [[d0], [pool.DATA[c0][-2]], 3], [lambda v0=v0: [v0()]], group)
        pool.reg("Opt_" + c0, TOptional[cls0], [None, d0], [lambda: None, v0], group)
        pool.reg("Dict_" + c0, TDict[str, cls0], [{"a": d0}], [lambda v0=v0: {"a": v0()}], group)
    info = {"seed": seed, "families": n, "families_dropped_sequentially_unsound": [f["k"] for f in dropped], "classes": sum(len(f["classes"]) for f in fams),
            "styles": {s: sum(1 for f in fams if f["style"] == s) for s in ("ring", "self", "tree", "chain")},
            "source_len": len(src)}
    BUILT[key] = info
    return info
