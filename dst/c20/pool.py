"""Workload catalog for C20: user types, data, values, option sets, callbacks.

Imported once in the zygote, *after* apischema and before any worker is forked, so
every process sees the very same class objects.  Importing this module must not fill
any apischema cache (checked by ``dst.c20.engine.assert_pristine``): classes are only
defined and registered here, never (de)serialized.

Everything is addressed by name so that a plan (and a replay file) is plain JSON:
``TYPES[name]`` a type expression, ``DATA[name]`` JSON inputs for deserialize (valid and
invalid), ``VALUES[name]`` thunks building values for serialize, ``OPTS[name]`` keyword
sets.  Callbacks (aliasers, converters, validators, lazy getters …) go through
``callback()`` so that the harness can count invocations and inject a fault at the n-th
call made by one designated operation.
"""
import functools
import threading
import uuid
from dataclasses import dataclass, field
from datetime import date, datetime
from enum import Enum
from typing import (
    Any,
    Dict,
    FrozenSet,
    Generic,
    List,
    Literal,
    Mapping,
    NamedTuple,
    NewType,
    Optional,
    Sequence,
    Set,
    Tuple,
    TypedDict,
    TypeVar,
    Union,
)

from apischema import (
    ValidationError,
    alias,
    deserializer,
    discriminator,
    order,
    schema,
    serialized,
    serializer,
    type_name,
    validator,
)
from apischema.conversions import Conversion, LazyConversion
from apischema.fields import with_fields_set
from apischema.metadata import conversion, flatten, properties, skip
from apischema.typing import Annotated

# --------------------------------------------------------------- fault seam


class InjectedFault(Exception):
    """The 'usually successful call raises' fault."""


class OpContext(threading.local):
    """Per-thread context of the operation being executed."""

    def __init__(self):
        self.armed = None  # None | [callback_name or "*", n]
        self.count = 0
        self.fired = 0
        self.calls = 0
        self.stall = None  # None | n : the n-th callback invocation of this operation stalls
        self.stall_count = 0
        self.stalled = 0


CTX = OpContext()
CALLS: Dict[str, int] = {}  # callback name -> total invocations (probe; GIL-atomic enough)


def callback(name: str):
    """Decorator: count invocations, inject the armed fault."""

    def deco(fn):
        def wrapper(*a, **k):
            c = CTX
            c.calls += 1
            CALLS[name] = CALLS.get(name, 0) + 1
            if c.stall is not None:
                c.stall_count += 1
                if c.stall_count == c.stall:
                    from dst import sched as _sched

                    sim = _sched.CURRENT
                    if sim is not None and sim.in_sim_thread():
                        c.stalled += 1
                        sim.stall()  # a slow user callable: everybody else gets ahead
            arm = c.armed
            if arm is not None and (arm[0] == "*" or arm[0] == name):
                c.count += 1
                if c.count == arm[1]:
                    c.fired += 1
                    raise InjectedFault("%s#%d" % (name, arm[1]))
            return fn(*a, **k)

        functools.wraps(fn)(wrapper)
        wrapper.__wrapped_cb__ = fn
        return wrapper

    return deco


TYPES: Dict[str, Any] = {}
DATA: Dict[str, List[Any]] = {}
VALUES: Dict[str, List[Any]] = {}  # thunks
GROUPS: Dict[str, List[str]] = {}  # family -> type names sharing analysis state


def reg(name, tp, data=(), values=(), group=None):
    TYPES[name] = tp
    DATA[name] = list(data)
    VALUES[name] = list(values)
    GROUPS.setdefault(group or name, []).append(name)
    return tp


# --------------------------------------------------------------- plain types


@dataclass
class Point:
    x: int
    y: int = 0


@dataclass
class Line:
    a: Point
    b: Point
    label: Optional[str] = None


reg("Point", Point, [{"x": 1, "y": 2}, {"x": 1}, {"x": "1"}, {"y": 2}, {"x": 1, "z": 3}, 7],
    [lambda: Point(1, 2), lambda: Point(3)], "plain")
reg("Line", Line, [{"a": {"x": 1}, "b": {"x": 2, "y": 3}}, {"a": {"x": 1}, "b": {"x": "no"}},
                   {"a": {"x": 1}, "b": {"x": 2}, "label": "l"}, {"a": None}],
    [lambda: Line(Point(1), Point(2, 3), "l")], "plain")
reg("ListPoint", List[Point], [[{"x": 1}, {"x": 2, "y": 3}], [{"x": 1}, {"x": None}], {}],
    [lambda: [Point(1), Point(2, 3)]], "plain")
reg("DictLine", Dict[str, Line], [{"k": {"a": {"x": 1}, "b": {"x": 2}}}, {"k": {"a": 1}}],
    [lambda: {"k": Line(Point(1), Point(2))}], "plain")
reg("OptPoint", Optional[Point], [None, {"x": 4}, "no"], [lambda: None, lambda: Point(4)], "plain")
reg("TupPoint", Tuple[Point, int], [[{"x": 1}, 2], [{"x": 1}], [1, 2]],
    [lambda: (Point(1), 2)], "plain")


# --------------------------------------------------------------- self recursion


@dataclass
class Node:
    v: int
    children: List["Node"] = field(default_factory=list)


@dataclass
class Tree:
    v: int
    left: Optional["Tree"] = None
    right: Optional["Tree"] = None


@dataclass
class DNode:
    name: str
    sub: Dict[str, "DNode"] = field(default_factory=dict)


@dataclass
class TNode:
    pair: Tuple[int, Optional["TNode"]]


@dataclass
class Deep:
    """recursion reached only through a non-recursive wrapper chain"""

    head: "DeepMid"


@dataclass
class DeepMid:
    items: List["DeepLeaf"]
    point: Point


@dataclass
class DeepLeaf:
    back: Optional[Deep] = None
    n: int = 0


_node_data = [
    {"v": 1, "children": [{"v": 2}, {"v": 3, "children": [{"v": 4}]}]},
    {"v": 1},
    {"v": 1, "children": [{"v": "x"}, {"w": 1}]},
    {"v": 1, "children": [{"v": 2, "children": [{"v": 3, "children": [{"v": None}]}]}]},
    [],
]
reg("Node", Node, _node_data, [lambda: Node(1, [Node(2), Node(3, [Node(4)])]), lambda: Node(5)], "Node")
reg("ListNode", List[Node], [[d] for d in _node_data[:3]] + [7],
    [lambda: [Node(1, [Node(2)])]], "Node")
reg("OptNode", Optional[Node], [None] + _node_data[:3], [lambda: None, lambda: Node(1, [Node(2)])], "Node")
reg("DictNode", Dict[str, Node], [{"a": _node_data[0]}, {"a": _node_data[2]}],
    [lambda: {"a": Node(1, [Node(2)])}], "Node")
reg("Tree", Tree, [{"v": 1, "left": {"v": 2, "right": {"v": 3}}, "right": None}, {"v": 1, "left": {"v": "x"}},
                   {"v": 1, "left": {"left": {"v": 2}}}],
    [lambda: Tree(1, Tree(2, None, Tree(3)), None)], "Tree")
reg("DNode", DNode, [{"name": "a", "sub": {"b": {"name": "b", "sub": {"c": {"name": "c"}}}}},
                     {"name": "a", "sub": {"b": {"name": 1}}}],
    [lambda: DNode("a", {"b": DNode("b", {"c": DNode("c")})})], "DNode")
reg("TNode", TNode, [{"pair": [1, {"pair": [2, None]}]}, {"pair": [1, {"pair": ["x", None]}]}, {"pair": [1]}],
    [lambda: TNode((1, TNode((2, None))))], "TNode")
_deep = {"head": {"items": [{"n": 1}, {"back": {"head": {"items": [], "point": {"x": 1}}}}], "point": {"x": 0}}}
reg("Deep", Deep, [_deep, {"head": {"items": [{"n": "x"}], "point": {"x": 0}}}],
    [lambda: Deep(DeepMid([DeepLeaf(None, 1), DeepLeaf(Deep(DeepMid([], Point(1))))], Point(0)))], "Deep")
reg("DeepMid", DeepMid, [_deep["head"]], [lambda: DeepMid([DeepLeaf(None, 2)], Point(1))], "Deep")
reg("DeepLeaf", DeepLeaf, [{"n": 3}, {"back": _deep}], [lambda: DeepLeaf(None, 3)], "Deep")


# --------------------------------------------------------------- mutual recursion


@dataclass
class MA:
    b: Optional["MB"] = None
    n: int = 0


@dataclass
class MB:
    a: List[MA] = field(default_factory=list)
    s: str = ""


@dataclass
class X3:
    y: Optional["Y3"] = None


@dataclass
class Y3:
    z: List["Z3"] = field(default_factory=list)
    p: Optional[Point] = None


@dataclass
class Z3:
    x: Optional[X3] = None
    t: Optional[Tree] = None


_ma = {"b": {"a": [{"n": 1}, {"b": {"s": "q"}}], "s": "t"}, "n": 2}
reg("MA", MA, [_ma, {"b": {"a": [{"n": "x"}]}}, {}], [lambda: MA(MB([MA(None, 1), MA(MB([], "q"))], "t"), 2)], "M")
reg("MB", MB, [_ma["b"], {"a": [{"b": {"a": 3}}]}], [lambda: MB([MA(None, 1)], "t")], "M")
_x3 = {"y": {"z": [{"x": {"y": None}}, {"t": {"v": 1, "left": {"v": 2}}}], "p": {"x": 1}}}
reg("X3", X3, [_x3, {"y": {"z": [{"x": {"y": 4}}]}}], [lambda: X3(Y3([Z3(X3()), Z3(None, Tree(1, Tree(2)))], Point(1)))], "XYZ")
reg("Y3", Y3, [_x3["y"], {"z": 1}], [lambda: Y3([Z3(X3())], None)], "XYZ")
reg("Z3", Z3, [{"x": _x3}, {"t": {"v": "x"}}], [lambda: Z3(X3(), Tree(1))], "XYZ")


# --------------------------------------------------------------- generics

T = TypeVar("T")
U = TypeVar("U")


@dataclass
class Wrapper(Generic[T]):
    item: T
    tag: str = ""


@type_name(lambda tp, arg: "GNode" + getattr(arg, "__name__", "X"))
@dataclass
class GNode(Generic[T]):
    value: T
    next: Optional["GNode[T]"] = None


@dataclass
class Pair(Generic[T, U]):
    first: T
    second: U


reg("WrapperInt", Wrapper[int], [{"item": 1}, {"item": "x"}, {"item": 1, "tag": "t"}],
    [lambda: Wrapper(1, "t")], "Wrapper")
reg("WrapperNode", Wrapper[Node], [{"item": _node_data[0]}, {"item": _node_data[2]}],
    [lambda: Wrapper(Node(1, [Node(2)]))], "Node")
reg("WrapperListNode", Wrapper[List[Node]], [{"item": [_node_data[0]]}, {"item": _node_data[0]}],
    [lambda: Wrapper([Node(1, [Node(2)])])], "Node")
reg("GNodeInt", GNode[int], [{"value": 1, "next": {"value": 2, "next": None}}, {"value": 1, "next": {"value": "x"}}],
    [lambda: GNode(1, GNode(2))], "GNode")
reg("GNodeStr", GNode[str], [{"value": "a", "next": {"value": "b"}}, {"value": 1}],
    [lambda: GNode("a", GNode("b"))], "GNode")
reg("PairTree", Pair[Tree, List[Tree]], [{"first": {"v": 1}, "second": [{"v": 2, "left": {"v": 3}}]},
                                         {"first": {"v": 1}, "second": [{"v": None}]}],
    [lambda: Pair(Tree(1), [Tree(2, Tree(3))])], "Tree")


# --------------------------------------------------------------- generic inheritance


@dataclass
class GBase(Generic[T]):
    x: T
    xs: List[T] = field(default_factory=list)


@dataclass
class GChild(GBase[int]):
    y: str = ""


@dataclass
class GGrand(GChild):
    z: Optional["GGrand"] = None


reg("GChild", GChild, [{"x": 1, "xs": [2], "y": "s"}, {"x": "oops"}, {"x": 1, "xs": ["no"]}],
    [lambda: GChild(1, [2], "s")], "GInherit")
reg("GGrand", GGrand, [{"x": 1, "z": {"x": 2, "z": None}}, {"x": 1, "z": {"x": "bad"}}],
    [lambda: GGrand(1, [], "s", GGrand(2))], "GInherit")
reg("GBaseStr", GBase[str], [{"x": "a", "xs": ["b"]}, {"x": 1}], [lambda: GBase("a", ["b"])], "GInherit")
reg("ListGChild", List[GChild], [[{"x": 1}], [{"x": None}]], [lambda: [GChild(1)]], "GInherit")


# --------------------------------------------------------------- conversions


class Opaque:
    def __init__(self, n: int):
        self.n = n

    def __eq__(self, o):
        return isinstance(o, Opaque) and o.n == self.n

    def __repr__(self):
        return "Opaque(%r)" % self.n


@deserializer
@callback("opaque_from_int")
def opaque_from_int(n: int) -> Opaque:
    return Opaque(n)


@serializer
@callback("opaque_to_int")
def opaque_to_int(o: Opaque) -> int:
    return o.n


@dataclass
class HasOpaque:
    o: Opaque
    os: List[Opaque] = field(default_factory=list)


reg("Opaque", Opaque, [3, "x", None], [lambda: Opaque(3)], "Opaque")
reg("HasOpaque", HasOpaque, [{"o": 1, "os": [2, 3]}, {"o": "x"}, {"o": 1, "os": [None]}],
    [lambda: HasOpaque(Opaque(1), [Opaque(2)])], "Opaque")


# recursion through a conversion (cf. tests/unit/test_schema.py)
class Foo:
    def __init__(self, inner=None):
        self.inner = inner

    def __eq__(self, o):
        return isinstance(o, Foo) and o.inner == self.inner

    def __repr__(self):
        return "Foo(%r)" % (self.inner,)


@dataclass
class Bar:
    foo: Optional[Foo]
    n: int = 0


@deserializer
@callback("foo_from_bar")
def foo_from_bar(bar: Bar) -> Foo:
    return Foo(bar.foo)


@serializer
@callback("foo_to_bar")
def foo_to_bar(foo: Foo) -> Bar:
    return Bar(foo.inner, 1)


reg("Foo", Foo, [{"foo": {"foo": None}}, {"foo": {"foo": 1}}, {"foo": None, "n": "x"}],
    [lambda: Foo(Foo(None))], "Foo")
reg("Bar", Bar, [{"foo": {"foo": None}, "n": 2}, {"n": 1}], [lambda: Bar(Foo(None), 2)], "Foo")
reg("ListFoo", List[Foo], [[{"foo": None}, {"foo": {"foo": None}}], [{"foo": 3}]],
    [lambda: [Foo(None), Foo(Foo(None))]], "Foo")


# lazily registered conversions
class LazyTarget:
    def __init__(self, s: str):
        self.s = s

    def __eq__(self, o):
        return isinstance(o, LazyTarget) and o.s == self.s

    def __repr__(self):
        return "LazyTarget(%r)" % self.s


@callback("lazy_target_conv")
def _lt_from_str(s: str) -> LazyTarget:
    return LazyTarget(s)


@callback("lazy_target_ser")
def _lt_to_str(o: LazyTarget) -> str:
    return o.s


@callback("lazy_getter_d")
def _lazy_get_d():
    return Conversion(_lt_from_str, source=str, target=LazyTarget)


@callback("lazy_getter_s")
def _lazy_get_s():
    return Conversion(_lt_to_str, source=LazyTarget, target=str)


deserializer(lazy=_lazy_get_d, target=LazyTarget)
serializer(lazy=_lazy_get_s, source=LazyTarget)


@dataclass
class HasLazy:
    t: LazyTarget
    ts: List[LazyTarget] = field(default_factory=list)
    rec: Optional["HasLazy"] = None


reg("LazyTarget", LazyTarget, ["a", 1], [lambda: LazyTarget("a")], "Lazy")
reg("HasLazy", HasLazy, [{"t": "a", "ts": ["b"], "rec": {"t": "c"}}, {"t": "a", "rec": {"t": 1}}],
    [lambda: HasLazy(LazyTarget("a"), [LazyTarget("b")], HasLazy(LazyTarget("c")))], "Lazy")


# field-level conversions
@callback("hex_to_int")
def hex_to_int(s: str) -> int:
    return int(s, 16)


@callback("int_to_hex")
def int_to_hex(n: int) -> str:
    return hex(n)


@dataclass
class FieldConv:
    h: int = field(metadata=conversion(hex_to_int, int_to_hex))
    sub: Optional["FieldConv"] = None


reg("FieldConv", FieldConv, [{"h": "ff", "sub": {"h": "10"}}, {"h": 3}],
    [lambda: FieldConv(255, FieldConv(16))], "FieldConv")


# --------------------------------------------------------------- discriminated hierarchy


@discriminator("kind")
@dataclass
class Animal:
    name: str


@dataclass
class Cat(Animal):
    lives: int = 9


@dataclass
class Dog(Animal):
    friend: Optional[Animal] = None


@dataclass
class Zoo:
    animals: List[Animal] = field(default_factory=list)
    star: Optional[Animal] = None


_cat = {"kind": "Cat", "name": "c", "lives": 3}
_dog = {"kind": "Dog", "name": "d", "friend": _cat}
reg("Animal", Animal, [_cat, _dog, {"kind": "Fish", "name": "f"}, {"name": "x"}, {"kind": "Dog", "name": "d", "friend": {"kind": "Dog"}}],
    [lambda: Cat("c", 3), lambda: Dog("d", Cat("c"))], "Animal")
reg("Zoo", Zoo, [{"animals": [_cat, _dog], "star": _dog}, {"animals": [{"kind": "Cat"}]}],
    [lambda: Zoo([Cat("c"), Dog("d", Cat("e"))], Dog("s"))], "Animal")
@dataclass
class UCat:
    type: Literal["ucat"]
    n: int = 0


@dataclass
class UDog:
    type: Literal["udog"]
    pal: Optional[UCat] = None


UPet = Annotated[Union[UCat, UDog], discriminator("type")]
reg("UPet", UPet, [{"type": "ucat", "n": 1}, {"type": "udog", "pal": {"type": "ucat"}}, {"type": "x"}, {"n": 1}],
    [lambda: UCat("ucat", 1), lambda: UDog("udog", UCat("ucat"))], "UPet")


# --------------------------------------------------------------- other kinds


class NT(NamedTuple):
    a: int
    b: str = "b"
    rest: Optional[List["NT"]] = None


class TD(TypedDict, total=False):
    a: int
    sub: "TD"


class Color(Enum):
    RED = "red"
    GREEN = "green"


class Num(Enum):
    ONE = 1
    TWO = 2


PosInt = NewType("PosInt", int)
schema(min=0)(PosInt)
ShortStr = NewType("ShortStr", str)
schema(max_len=3, pattern=r"^[a-z]*$")(ShortStr)


@dataclass
class Kinds:
    color: Color
    num: Num = Num.ONE
    lit: Literal["a", "b", 1] = "a"
    pos: PosInt = PosInt(0)
    short: ShortStr = ShortStr("")
    tags: Set[str] = field(default_factory=set)
    frozen: FrozenSet[int] = frozenset()
    seq: Sequence[int] = ()
    mapping: Mapping[str, int] = field(default_factory=dict)
    anything: Any = None
    un: Union[int, str, List[int]] = 0


reg("NT", NT, [[1, "x", [[2]]], [1], ["x"], {"a": 1}], [lambda: NT(1, "x", [NT(2)])], "NT")
reg("TD", TD, [{"a": 1, "sub": {"a": 2, "sub": {}}}, {"a": "x"}, {"sub": {"a": None}}],
    [lambda: {"a": 1, "sub": {"a": 2}}], "TD")
reg("Color", Color, ["red", "blue"], [lambda: Color.RED], "Kinds")
reg("Kinds", Kinds, [
    {"color": "red", "num": 2, "lit": 1, "pos": 3, "short": "ab", "tags": ["a", "b"], "frozen": [1, 2],
     "seq": [1], "mapping": {"k": 1}, "anything": {"z": [1]}, "un": [1, 2]},
    {"color": "red", "pos": -1, "short": "ABCD", "lit": "c", "un": 1.5},
    {"color": "nope"},
], [lambda: Kinds(Color.GREEN, Num.TWO, "b", PosInt(1), ShortStr("ab"), {"t"}, frozenset([1]), (1, 2), {"k": 1}, {"q": [1]}, "s")],
    "Kinds")
reg("UUID", uuid.UUID, ["12345678-1234-5678-1234-567812345678", "nope", 1],
    [lambda: uuid.UUID("12345678-1234-5678-1234-567812345678")], "std")
reg("Date", date, ["2020-01-02", "x"], [lambda: date(2020, 1, 2)], "std")
reg("ListDatetime", List[datetime], [["2020-01-02T03:04:05"], ["z"]], [lambda: [datetime(2020, 1, 2, 3, 4, 5)]], "std")


@dataclass
class Stamped:
    id: uuid.UUID
    at: Optional[datetime] = None
    prev: Optional["Stamped"] = None


reg("Stamped", Stamped, [{"id": "12345678-1234-5678-1234-567812345678", "at": "2020-01-02T03:04:05",
                         "prev": {"id": "12345678-1234-5678-1234-567812345678"}},
                        {"id": "x", "prev": {"id": 1}}],
    [lambda: Stamped(uuid.UUID(int=1), datetime(2020, 1, 2), Stamped(uuid.UUID(int=2)))], "Stamped")


# --------------------------------------------------------------- fields_set / validators / serialized / aggregates


@with_fields_set
@dataclass
class FS:
    a: int = 0
    b: Optional[str] = None
    child: Optional["FS"] = None


reg("FS", FS, [{"a": 1}, {"b": "x", "child": {"a": 2}}, {}, {"a": "x"}],
    [lambda: FS(a=1), lambda: FS(b="x", child=FS(a=2))], "FS")


@dataclass
class Validated:
    lo: int
    hi: int
    inner: Optional["Validated"] = None

    @validator
    def check_order(self):
        _validated_cb()
        if self.lo > self.hi:
            raise ValidationError("lo > hi")

    @validator("hi")
    def check_hi(self):
        if self.hi > 100:
            yield "hi too big"


@callback("validated_cb")
def _validated_cb():
    return None


reg("Validated", Validated, [{"lo": 1, "hi": 2, "inner": {"lo": 3, "hi": 1}}, {"lo": 1, "hi": 200},
                             {"lo": 1, "hi": 2, "inner": {"lo": 0, "hi": 1}}, {"lo": "x", "hi": 1}],
    [lambda: Validated(1, 2, Validated(0, 1))], "Validated")


@dataclass
class Order:
    """Validators whose field dependencies are found through a chain of properties / methods
    (apischema.validation.dependencies): a validator is skipped when all the fields it depends on
    are defaulted, so data omitting the defaulted fields observe the dependency analysis."""

    qty: int
    price: int
    shipping: int = 0
    note: Optional[str] = None

    @property
    def subtotal(self):
        return self.qty * self.price

    @property
    def total(self):
        return self.subtotal + self.shipping

    def _weight(self):
        return self.qty * 2 + self.shipping

    @validator
    def total_positive(self):
        if self.total < 0:
            raise ValidationError("negative total")

    @validator
    def subtotal_small(self):
        if self.subtotal > 1000:
            yield "subtotal too big"

    @validator
    def weight_ok(self):
        if self._weight() > 500:
            yield "too heavy"

    @validator
    def note_ok(self):
        if self.note is not None and not self.note and self.total > 10:
            yield "empty note"


@dataclass
class OrderBook:
    orders: List[Order] = field(default_factory=list)
    best: Optional[Order] = None

    @validator
    def best_listed(self):
        if self.best is not None and self.orders and self.best.total > max(o.total for o in self.orders):
            yield "best not listed"


reg("Order", Order, [{"qty": -5, "price": 3}, {"qty": 1, "price": 2}, {"qty": 50, "price": 30, "shipping": 1},
                     {"qty": 300, "price": 1}, {"qty": 4, "price": 4, "note": ""}, {"qty": "x"}],
    [lambda: Order(1, 2, 3, "n")], "Order")
reg("OrderBook", OrderBook, [{"orders": [{"qty": -5, "price": 3}, {"qty": 1, "price": 1}]},
                             {"best": {"qty": 9, "price": 9}, "orders": [{"qty": 1, "price": 1}]},
                             {"best": {"qty": 600, "price": 2}}],
    [lambda: OrderBook([Order(1, 2)], Order(1, 2))], "Order")


@dataclass
class WithSerialized:
    n: int
    kids: List["WithSerialized"] = field(default_factory=list)

    @serialized
    def double(self) -> int:
        return _double_cb(self.n)

    @serialized("total")
    def _total(self) -> int:
        return self.n + sum(k._total() for k in self.kids)

    @serialized
    @property
    def first(self) -> Optional["WithSerialized"]:
        return self.kids[0] if self.kids else None


@callback("double_cb")
def _double_cb(n):
    return 2 * n


reg("WithSerialized", WithSerialized, [{"n": 1, "kids": [{"n": 2}]}, {"n": "x"}],
    [lambda: WithSerialized(1, [WithSerialized(2)])], "WithSerialized")


@dataclass
class Inner:
    i1: int = 0
    i2: Optional[str] = None


@order(["z", "a"])
@dataclass
class Aggregate:
    a: int
    inner: Inner = field(default_factory=Inner, metadata=flatten)
    pat: Dict[str, int] = field(default_factory=dict, metadata=properties(pattern=r"^p_"))
    extra: Dict[str, Any] = field(default_factory=dict, metadata=properties)
    z: int = field(default=0, metadata=alias("zed"))
    hidden: int = field(default=0, metadata=skip)


reg("Aggregate", Aggregate, [{"a": 1, "i1": 2, "p_x": 3, "other": [1], "zed": 4}, {"a": 1, "p_x": "no"},
                             {"i1": 1}, {"a": 1, "i2": 5}],
    [lambda: Aggregate(1, Inner(2, "s"), {"p_x": 3}, {"other": [1]}, 4)], "Aggregate")


ClientKey = Annotated[str, schema(pattern=r"^client_")]
ServerKey = NewType("ServerKey", str)
schema(pattern=r"^server_")(ServerKey)


@dataclass
class Config:
    active: bool = True
    client: Mapping[ClientKey, bool] = field(default_factory=dict, metadata=properties(...))
    server: Dict[ServerKey, int] = field(default_factory=dict, metadata=properties(...))
    rest: Dict[str, Any] = field(default_factory=dict, metadata=properties)
    sub: Optional["Config"] = None


reg("Config", Config, [{"active": False, "client_x": True, "server_n": 1, "other": [1], "sub": {"client_y": False}},
                       {"client_x": "no"}, {"server_n": "x"}],
    [lambda: Config(False, {"client_x": True}, {"server_n": 1}, {"other": [1]}, Config())], "Config")
reg("ListConfig", List[Config], [[{"client_a": True}], [{"server_b": None}]], [lambda: [Config(True, {"client_a": True})]], "Config")


@alias(lambda s: s.upper())
@dataclass
class Upper:
    foo_bar: int
    nested: Optional["Upper"] = None


reg("Upper", Upper, [{"FOO_BAR": 1, "NESTED": {"FOO_BAR": 2}}, {"foo_bar": 1}],
    [lambda: Upper(1, Upper(2))], "Upper")


@type_name("RenamedRec")
@dataclass
class Renamed:
    r: Optional["Renamed"] = None
    pts: List[Point] = field(default_factory=list)


reg("Renamed", Renamed, [{"r": {"r": None, "pts": [{"x": 1}]}}, {"r": 1}],
    [lambda: Renamed(Renamed(None, [Point(1)]))], "Renamed")


# --------------------------------------------------------------- tagged union, object conversions


from apischema.tagged_unions import Tagged, TaggedUnion  # noqa: E402
from apischema.objects import object_deserialization, object_serialization, ObjectField  # noqa: E402


@dataclass
class TBar:
    field: str = ""


class TFoo(TaggedUnion):
    bar: Tagged[TBar]
    baz: Tagged[int]
    nodes: Tagged[List[Node]]


reg("TFoo", TFoo, [{"bar": {"field": "v"}}, {"baz": 1}, {"nodes": [{"v": 1, "children": [{"v": 2}]}]}, {"nope": 1}, {"baz": "x"}],
    [lambda: TFoo.bar(TBar("v")), lambda: TFoo.baz(3)], "Tagged")
reg("ListTFoo", List[TFoo], [[{"baz": 1}, {"bar": {}}], [{"baz": None}]], [lambda: [TFoo.baz(1)]], "Tagged")


class Db:
    def __init__(self, ident: int, name: str = "n"):
        self.ident, self.name = ident, name

    def __eq__(self, o):
        return isinstance(o, Db) and (o.ident, o.name) == (self.ident, self.name)

    def __repr__(self):
        return "Db(%r, %r)" % (self.ident, self.name)


@callback("db_from_fields")
def _db_from(ident: int, name: str = "n") -> Db:
    return Db(ident, name)


from apischema.objects import set_object_fields as _set_object_fields  # noqa: E402

_set_object_fields(Db, [ObjectField("ident", int), ObjectField("name", str, required=False, default="n")])
deserializer(object_deserialization(_db_from, type_name("DbIn")))
serializer(object_serialization(Db, ["ident", "name"], type_name("DbOut")))


@dataclass
class HasDb:
    db: Db
    more: List[Db] = field(default_factory=list)
    parent: Optional["HasDb"] = None


reg("Db", Db, [{"ident": 1, "name": "x"}, {"ident": "x"}, {}], [lambda: Db(1, "x")], "ObjConv")
reg("HasDb", HasDb, [{"db": {"ident": 1}, "more": [{"ident": 2}], "parent": {"db": {"ident": 3}}}, {"db": {"name": 1}}],
    [lambda: HasDb(Db(1), [Db(2)], HasDb(Db(3)))], "ObjConv")


@dataclass
class SBase:
    n: int = 0

    @serialized
    def base_twice(self) -> int:
        return self.n * 2


@dataclass
class SMid(SBase):
    m: int = 1

    @serialized("mid_sum")
    def _mid_sum(self) -> int:
        return self.n + self.m


@dataclass
class SLeaf(SMid):
    kids: List[SBase] = field(default_factory=list)


reg("SLeaf", SLeaf, [{"n": 1, "m": 2, "kids": [{"n": 3}]}, {"n": "x"}], [lambda: SLeaf(1, 2, [SBase(3)])], "SHier")
reg("SMid", SMid, [{"n": 1}], [lambda: SMid(1, 2)], "SHier")
reg("SBase", SBase, [{"n": 5}], [lambda: SBase(5)], "SHier")


# --------------------------------------------------------------- option sets


@callback("camel")
def _camel(s: str) -> str:
    parts = s.split("_")
    return parts[0] + "".join(p.capitalize() for p in parts[1:])


@callback("prefix_aliaser")
def _prefix(s: str) -> str:
    return "x_" + s


def fresh_default_conversion(direction: str):
    """A *new* closure each time: misses the lru caches keyed by default_conversion
    but hits the recursion cache shared below them."""
    from apischema import settings

    base = (
        settings.deserialization.default_conversion
        if direction == "d"
        else settings.serialization.default_conversion
    )

    def default_conversion(tp):
        return base(tp)

    return default_conversion


# kwargs by direction: "d" deserialize-like, "s" serialize-like, "j" json schema
OPTS: Dict[str, Dict[str, Dict[str, Any]]] = {
    "default": {"d": {}, "s": {}, "j": {}},
    "camel": {"d": {"aliaser": _camel}, "s": {"aliaser": _camel}, "j": {"aliaser": _camel}},
    "prefix": {"d": {"aliaser": _prefix}, "s": {"aliaser": _prefix}, "j": {"aliaser": _prefix}},
    "addprops": {"d": {"additional_properties": True}, "s": {"additional_properties": True},
                 "j": {"additional_properties": True}},
    "coerce": {"d": {"coerce": True}, "s": {"check_type": True}, "j": {}},
    "copy": {"d": {"no_copy": False}, "s": {"no_copy": False}, "j": {}},
    "fallback": {"d": {"fall_back_on_default": True}, "s": {"fall_back_on_any": True}, "j": {}},
    "excl": {"d": {}, "s": {"exclude_defaults": True, "exclude_none": True}, "j": {}},
    "unset": {"d": {}, "s": {"exclude_unset": False}, "j": {}},
    "fresh": {"d": "fresh", "s": "fresh", "j": "fresh"},
}


def resolve_opts(name: str, direction: str) -> Dict[str, Any]:
    o = OPTS[name][direction]
    if o == "fresh":
        return {"default_conversion": fresh_default_conversion("d" if direction == "d" else "s" if direction == "s" else "d")}
    return dict(o)


CALLBACK_NAMES = [
    "opaque_from_int", "opaque_to_int", "foo_from_bar", "foo_to_bar", "lazy_target_conv",
    "lazy_target_ser", "lazy_getter_d", "lazy_getter_s", "hex_to_int", "int_to_hex",
    "validated_cb", "double_cb", "camel", "prefix_aliaser", "db_from_fields",
]


# --------------------------------------------------------------- generated class graphs
import os as _os  # noqa: E402
import sys as _sys  # noqa: E402

from dst.c20 import gen as _gen  # noqa: E402

GEN_SEED = int(_os.environ.get("DST_GEN_SEED", _os.environ.get("VERIF_SEED") or 0) or 0)
GEN_INFO = _gen.build(GEN_SEED, int(_os.environ.get("DST_GEN_FAMILIES", "40")), _sys.modules[__name__])
