"""Static discovery of lazy-initialisation (check-then-act) sites in the tree under test.

An ``if`` whose test inspects an expression E (``E is None``, ``k not in E``, ``not E``,
``hasattr(E, …)``) and whose body (or ``else``) stores into E (``E = …``, ``E[k] = …``,
``E.append/add/update/setdefault(…)``) is a lazy initialisation: the window between the
check and the last store is where a second thread can observe "not yet" or "half done".
The ``lazyinit`` scheduling strategy parks a thread on one of the lines of such a body and
lets the other threads run for a long time.  Sites come from the AST of whatever tree is
under test, so a change that *introduces* a hand-rolled memo or a placeholder is targeted
automatically; nothing here names an apischema identifier.
"""
import ast
import os
from typing import Dict, List, Set, Tuple


def _exprs_tested(test: ast.AST) -> Set[str]:
    out: Set[str] = set()
    for node in ast.walk(test):
        if isinstance(node, ast.Compare):
            for op, right in zip(node.ops, node.comparators):
                if isinstance(op, (ast.Is, ast.IsNot, ast.Eq, ast.NotEq)):
                    out.add(ast.unparse(node.left))
                if isinstance(op, (ast.In, ast.NotIn)):
                    out.add(ast.unparse(right))
                    out.add(ast.unparse(node.left))
                if isinstance(op, (ast.Gt, ast.GtE, ast.Lt, ast.LtE)):
                    # size checks: len(E) > n  (bounded memo eviction and the like)
                    for side in (node.left, right):
                        if isinstance(side, ast.Call) and isinstance(side.func, ast.Name) and side.func.id == "len" and side.args:
                            out.add(ast.unparse(side.args[0]))
        elif isinstance(node, ast.UnaryOp) and isinstance(node.op, ast.Not):
            out.add(ast.unparse(node.operand))
        elif isinstance(node, ast.Call) and isinstance(node.func, ast.Name) and node.func.id in ("hasattr", "getattr"):
            if node.args:
                out.add(ast.unparse(node.args[0]))
    if isinstance(test, (ast.Name, ast.Attribute, ast.Subscript)):
        out.add(ast.unparse(test))
    return out


_MUTATORS = {"append", "add", "update", "setdefault", "extend", "insert", "pop", "clear"}


def _stores(stmts: List[ast.stmt]) -> Set[str]:
    out: Set[str] = set()
    for st in stmts:
        for node in ast.walk(st):
            targets = []
            if isinstance(node, ast.Assign):
                targets = node.targets
            elif isinstance(node, (ast.AugAssign, ast.AnnAssign)):
                targets = [node.target]
            for t in targets:
                for el in (t.elts if isinstance(t, ast.Tuple) else [t]):
                    out.add(ast.unparse(el))
                    if isinstance(el, ast.Subscript):
                        out.add(ast.unparse(el.value))
            if isinstance(node, ast.Delete):
                for t in node.targets:
                    out.add(ast.unparse(t))
                    if isinstance(t, ast.Subscript):
                        out.add(ast.unparse(t.value))
            if isinstance(node, ast.Call) and isinstance(node.func, ast.Attribute):
                if node.func.attr in _MUTATORS:
                    out.add(ast.unparse(node.func.value))
                if node.func.attr == "__setattr__" and len(node.args) >= 2:
                    out.add(ast.unparse(node.args[0]))
    return out


def _body_lines(stmts: List[ast.stmt]) -> List[int]:
    lines: List[int] = []
    for st in stmts:
        for node in ast.walk(st):
            if isinstance(node, ast.stmt) and hasattr(node, "lineno"):
                lines.append(node.lineno)
    return sorted(set(lines))[:8]


_MUTABLE_CALLS = {"list", "dict", "set", "defaultdict", "OrderedDict", "deque", "Counter", "ChainMap", "WeakKeyDictionary",
                  "WeakValueDictionary", "CacheAwareDict"}


def _is_mutable_literal(v: ast.AST) -> bool:
    if isinstance(v, (ast.List, ast.Dict, ast.Set, ast.ListComp, ast.DictComp, ast.SetComp)):
        return True
    if isinstance(v, ast.Call):
        f = v.func
        name = f.id if isinstance(f, ast.Name) else f.attr if isinstance(f, ast.Attribute) else None
        return name in _MUTABLE_CALLS
    return False


def _shared_containers(tree: ast.Module):
    """(module-level names, class-level attribute names) bound to a mutable container"""
    mod, cls = set(), set()

    def targets(st):
        if isinstance(st, ast.Assign) and _is_mutable_literal(st.value):
            return [t.id for t in st.targets if isinstance(t, ast.Name)]
        if isinstance(st, ast.AnnAssign) and st.value is not None and _is_mutable_literal(st.value):
            return [st.target.id] if isinstance(st.target, ast.Name) else []
        return []

    for st in tree.body:
        mod.update(targets(st))
    for node in ast.walk(tree):
        if isinstance(node, ast.ClassDef):
            for st in node.body:
                cls.update(targets(st))
    return mod, cls


def _mutation_lines(tree: ast.Module) -> Set[int]:
    """Lines (inside functions) that write into a process-shared mutable container -- a module
    global or a class-level attribute reached through self / cls -- and the two statements that
    follow in the same block (the window in which the write is published but its companions are
    not): hand-rolled memos, shared stacks and counters, registries filled on first use."""
    mod, cls = _shared_containers(tree)
    if not mod and not cls:
        return set()

    def shared(expr: ast.AST) -> bool:
        if isinstance(expr, ast.Name):
            return expr.id in mod
        if isinstance(expr, ast.Attribute) and isinstance(expr.value, ast.Name):
            return expr.attr in cls and expr.value.id in ("self", "cls")
        return False

    def writes(st: ast.stmt) -> bool:
        for node in ast.walk(st):
            tg = []
            if isinstance(node, ast.Assign):
                tg = node.targets
            elif isinstance(node, (ast.AugAssign, ast.AnnAssign)):
                tg = [node.target]
            elif isinstance(node, ast.Delete):
                tg = node.targets
            for t in tg:
                for el in (t.elts if isinstance(t, ast.Tuple) else [t]):
                    if isinstance(el, ast.Subscript) and shared(el.value):
                        return True
            if isinstance(node, ast.Call) and isinstance(node.func, ast.Attribute):
                if node.func.attr in _MUTATORS and shared(node.func.value):
                    return True
        return False

    lines: Set[int] = set()
    for fn in ast.walk(tree):
        if not isinstance(fn, (ast.FunctionDef, ast.AsyncFunctionDef)):
            continue
        for node in ast.walk(fn):
            for attr in ("body", "orelse", "finalbody"):
                block = getattr(node, attr, None)
                if not isinstance(block, list):
                    continue
                for i, st in enumerate(block):
                    if isinstance(st, ast.stmt) and not isinstance(st, (ast.FunctionDef, ast.ClassDef)) and writes(st):
                        simple = not isinstance(st, (ast.If, ast.For, ast.While, ast.With, ast.Try))
                        if simple:
                            lines.add(st.lineno)
                            for nxt in block[i + 1 : i + 3]:
                                lines.add(nxt.lineno)
    return lines


_SCANS: Dict[str, Dict[str, List[int]]] = {}


def scan(root: str) -> Dict[str, List[int]]:
    """{absolute file name: [line numbers inside lazy-init bodies]} -- memoised per root: the
    coordinator scans once (reach map) and every forked child inherits the result instead of
    re-parsing the package (0.35 s per simulated child, more than the simulation itself)."""
    got = _SCANS.get(root)
    if got is None:
        got = _SCANS[root] = _scan(root)
    return got


def _scan(root: str) -> Dict[str, List[int]]:
    sites: Dict[str, List[int]] = {}
    for base, dirs, files in os.walk(root):
        dirs.sort()
        for f in sorted(files):
            if not f.endswith(".py"):
                continue
            path = os.path.join(base, f)
            try:
                tree = ast.parse(open(path).read())
            except SyntaxError:
                continue
            lines: Set[int] = set(_mutation_lines(tree))
            for node in ast.walk(tree):
                if isinstance(node, ast.Try):
                    # try: x = memo[k] / obj.attr   except KeyError/AttributeError: memo[k] = … (EAFP memo)
                    read = set()
                    for st in node.body:
                        for sub in ast.walk(st):
                            if isinstance(sub, ast.Subscript):
                                read.add(ast.unparse(sub.value))
                            elif isinstance(sub, ast.Attribute):
                                read.add(ast.unparse(sub))
                    for h in node.handlers:
                        st = _stores(h.body)
                        if any(s_ == t or s_.startswith(t + "[") or s_.startswith(t + ".") for s_ in st for t in read):
                            lines.update(_body_lines(h.body))
                    continue
                if not isinstance(node, ast.If):
                    continue
                tested = _exprs_tested(node.test)
                if not tested:
                    continue
                for block in (node.body, node.orelse):
                    if not block:
                        continue
                    st = _stores(block)
                    hit = False
                    for s in st:
                        for t in tested:
                            if s == t or s.startswith(t + ".") or s.startswith(t + "[") or t.startswith(s + "."):
                                hit = True
                    if hit:
                        lines.update(_body_lines(block))
            if lines:
                sites[path] = sorted(lines)
    return sites


def as_set(sites: Dict[str, List[int]]) -> Set[Tuple[str, int]]:
    return {(f, ln) for f, ls in sites.items() for ln in ls}
