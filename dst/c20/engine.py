"""C20 -- concurrent first use: plan generation, execution, oracle.

A *plan* is plain JSON, a pure function of the run seed:

    {"seed":…, "threads":[[op,…],…], "strategy":[…], "opcode":bool,
     "cache_size":null|int, "fault":null|{"thread":i,"op":j,"cb":name,"n":k}}

    op = [kind, type_name, index, opts_name]

Three kinds of children execute it, each forked from the pristine zygote:

* ``baseline``  -- the operations one after another (thread 0's, then thread 1's, …),
  then the later-results phase;
* ``simulate``  -- the same operations on real threads under the seeded scheduler,
  then the same later-results phase on the caches the threads left behind;
* ``serial``    -- the operations in some other serial order (only to explain a mismatch
  by order-dependence of the *sequential* semantics before it is called a violation).
"""
import os
import random
import sys
from typing import Any, Dict, List, Optional, Sequence

from dst import boot, canon, sched
from dst.c20 import pool

STEP_CAP = 2_000_000
_SITE_MAP = None

OP_KINDS = ["des", "ser", "ser_any", "des_method", "ser_method", "des_schema", "ser_schema", "defs_schema", "gql_print"]

PROBE_SITES = {
    "is_recursive": "is_recursive_concurrent",
    "recursion_cache": "recursion_cache_concurrent",
    "deserialization_method_factory": "des_factory_concurrent",
    "factory": "factory_concurrent",
    "object_fields": "object_fields_concurrent",
    "_method": "method_concurrent",
    "lazy_result": "lazy_result_concurrent",
    "_lazy_get_d": "lazy_getter_concurrent",
    "_lazy_get_s": "lazy_getter_concurrent",
    "visit_with_conv": "visitor_concurrent",
}


def assert_pristine():
    """No apischema cache may have been filled by importing the pools."""
    from apischema import cache as c

    for f in getattr(c, "_cached", ()):
        info = getattr(f, "cache_info", None)  # a tree may implement its caches differently
        if info is not None and info().currsize:
            raise RuntimeError("zygote not pristine: %s has entries" % getattr(f, "__name__", f))


# ---------------------------------------------------------------------- plans


def run_seed(prop: str, batch_seed: int, index: int) -> int:
    import hashlib

    h = hashlib.blake2b(("%s:%d:%d" % (prop, batch_seed, index)).encode(), digest_size=8)
    return int.from_bytes(h.digest(), "big")


def _gen_op(rng: random.Random, names: Sequence[str], mix: Sequence[str], optnames: Sequence[str]) -> list:
    for _ in range(20):
        kind = mix[rng.randrange(len(mix))]
        tname = names[rng.randrange(len(names))]
        opt = optnames[rng.randrange(len(optnames))]
        if kind in ("des", "des_method"):
            if not pool.DATA[tname]:
                continue
            return [kind, tname, rng.randrange(len(pool.DATA[tname])), opt]
        if kind in ("ser", "ser_any", "ser_method"):
            if not pool.VALUES[tname]:
                continue
            return [kind, tname, rng.randrange(len(pool.VALUES[tname])), opt]
        return [kind, tname, 0, opt]
    return ["des_schema", names[0], 0, "default"]


def make_plan(seed: int, tier: str = "quick") -> dict:
    rng = random.Random(seed)
    groups = sorted(pool.GROUPS)
    static = [g for g in groups if not g.startswith("gen")]
    generated = [g for g in groups if g.startswith("gen")]

    only = os.environ.get("DST_C20_FAMILIES")  # debugging aid: restrict the workload

    def pick_group():
        if only:
            return rng.choice(sorted(set(only.split(",")) & set(groups)) or static)
        # the hand-written families (conversions, lazy conversions, discriminators, generics, …) get
        # 70 % of the runs, the generated class graphs 30 %
        if generated and rng.random() < 0.3:
            return rng.choice(generated)
        return rng.choice(static)

    # size: half of the runs are duels (two threads, one first use each): most first-use races need
    # no more and small runs are cheap; the rest grow up to 4 threads x 3 operations
    size = rng.random()
    n_threads = 2 if size < 0.5 else rng.choice([2, 2, 3, 3, 4])
    # placement: 60 % one family, 25 % two families, 15 % several
    r = rng.random()
    if r < 0.60:
        fam = [pick_group()]
    elif r < 0.85:
        fam = list({pick_group(), pick_group()})
    else:
        fam = list({pick_group() for _ in range(rng.choice([3, 5]))})
    names = [n for g in fam for n in pool.GROUPS[g]]
    # swarm: operation mix and option subset
    mix = rng.sample(OP_KINDS, rng.randint(1, len(OP_KINDS)))
    if rng.random() < 0.5:
        mix += ["des", "ser"]
    optnames = ["default"] * 3 + rng.sample(sorted(pool.OPTS), rng.randint(0, 3))
    same_first = rng.random() < 0.4
    threads = []
    first = _gen_op(rng, names, mix, optnames)
    for t in range(n_threads):
        k = 1 if size < 0.5 else rng.choice([1, 1, 2, 2, 3])
        ops = [_gen_op(rng, names, mix, optnames) for _ in range(k)]
        if same_first:
            ops[0] = list(first)
        threads.append(ops)
    # strategy
    r = rng.random()
    if r < 0.27:
        strat = ["uniform", rng.choice([0.002, 0.005, 0.01, 0.02, 0.05, 0.1, 0.2, 0.5])]
    elif r < 0.44:
        strat = ["pct", rng.choice([1, 2, 3, 4]), rng.choice([500, 2000, 8000, 30000])]
    elif r < 0.57:
        strat = ["targeted", rng.choice([0.02, 0.1, 0.3, 0.7])]
    elif r < 0.97:
        strat = ["lazyinit", rng.choice([0.3, 0.6, 1.0]), rng.choice([0.03, 0.1, 0.3, 1.0])]
        from dst.c20 import reach

        if reach.REACH and rng.random() < 0.8:
            # site-directed: every cluster of lazy-initialisation / shared-write sites of the tree
            # (lines of one file at most six lines apart) gets the same share of runs
            clusters = reach.clusters()
            cl = clusters[rng.randrange(len(clusters))]
            site = cl[rng.randrange(len(cl))]
            cands = reach.REACH[site]
            first = cands[rng.randrange(len(cands))]
            same = [c for c in cands if c[1] == first[1]]
            schema = [c for c in (same if rng.random() < 0.6 else cands) if c[0].endswith("schema")]
            r2 = rng.random()
            if schema and not first[0].endswith("schema") and r2 < 0.6:
                second = schema[rng.randrange(len(schema))]
            elif same and r2 < 0.85:
                second = same[rng.randrange(len(same))]
            else:
                second = cands[rng.randrange(len(cands))]

            def mk(c):
                k, t = c
                n = len(pool.DATA[t]) if k == "des" else len(pool.VALUES[t]) if k == "ser" else 1
                return [k, t, rng.randrange(max(n, 1)), "default"]

            threads = [[mk(first)], [mk(second)]]
            if rng.random() < 0.3:
                third = cands[rng.randrange(len(cands))]
                threads.append([mk(third)])
            n_threads = len(threads)
            strat = ["lazyinit", rng.choice([0.5, 1.0]), "at", site]
    else:
        strat = ["nopreempt"]
    # opcode granularity: whole hot files (thorough only, ~5x slower) or only the functions that
    # contain a lazy-initialisation site (cheap, both tiers)
    r = rng.random()
    if tier == "thorough":
        opcode = "files" if r < 0.15 else "sites" if r < 0.5 else False
    else:
        opcode = "sites" if r < 0.3 else False
    cache_size = rng.choice([1, 2, 8]) if rng.random() < 0.25 else None
    # "warm process" knob: many other types compiled before the threads start, so that bounded
    # memos are at capacity and eviction / overflow paths run (the racing types stay fresh)
    prefill = 0
    if rng.random() < 0.08:
        prefill = rng.choice([140, 300])
    fault = None
    if rng.random() < 0.3:
        t = rng.randrange(n_threads)
        j = rng.randrange(len(threads[t]))
        if rng.random() < 0.6:
            # a fault while idle tests nothing: make the armed operation reach a user callable
            # during compilation (an aliaser is invoked for every object type)
            threads[t][j][3] = rng.choice(["camel", "prefix"])
        fault = {"thread": t, "op": j, "cb": "*", "n": rng.choice([1, 1, 2, 3, 5, 8])}
    # fault "stalled callback": the n-th user callable reached by one operation is slow -- its thread
    # stays inside it until all the others have finished or blocked (compile-time callables: lazy
    # conversion getters, aliasers, default_conversion; run-time ones: converters, validators)
    stall = None
    if rng.random() < 0.3:
        t = rng.randrange(n_threads)
        j = rng.randrange(len(threads[t]))
        if threads[t][j][3] == "default" and rng.random() < 0.4:
            threads[t][j][3] = rng.choice(["camel", "prefix", "fresh"])
        stall = {"thread": t, "op": j, "n": rng.choice([1, 1, 2, 3, 5])}
    return {
        "seed": seed,
        "stall": stall,
        "threads": threads,
        "strategy": strat,
        "opcode": opcode,
        "cache_size": cache_size,
        "prefill": prefill,
        "fault": fault,
    }


# ---------------------------------------------------------------------- execution


def _call(op: list):
    import apischema
    from apischema.json_schema import definitions_schema, deserialization_schema, serialization_schema

    kind, tname, idx, optname = op
    tp = pool.TYPES[tname]
    if kind == "des":
        return apischema.deserialize(tp, pool.DATA[tname][idx], **pool.resolve_opts(optname, "d"))
    if kind == "des_method":
        m = apischema.deserialization_method(tp, **pool.resolve_opts(optname, "d"))
        return m(pool.DATA[tname][idx])
    if kind == "ser":
        return apischema.serialize(tp, pool.VALUES[tname][idx](), **pool.resolve_opts(optname, "s"))
    if kind == "ser_any":
        o = pool.resolve_opts(optname, "s")
        return apischema.serialize(pool.VALUES[tname][idx](), **o)
    if kind == "ser_method":
        m = apischema.serialization_method(tp, **pool.resolve_opts(optname, "s"))
        return m(pool.VALUES[tname][idx]())
    o = pool.resolve_opts(optname, "j")
    if kind == "des_schema":
        return deserialization_schema(tp, **o)
    if kind == "ser_schema":
        return serialization_schema(tp, **o)
    if kind == "defs_schema":
        o.pop("additional_properties", None)
        return definitions_schema(deserialization=[tp], serialization=[tp], **o)
    if kind == "gql_print":
        import graphql
        from apischema.graphql import graphql_schema

        def query():
            return None

        query.__annotations__ = {"return": tp}
        kw = {"aliaser": o["aliaser"]} if "aliaser" in o else {}
        return graphql.print_schema(graphql_schema(query=[query], **kw))
    raise ValueError(kind)


def run_op(op: list, arm=None, stall=None) -> list:
    ctx = pool.CTX
    ctx.armed = arm
    ctx.count = 0
    ctx.stall = stall
    ctx.stall_count = 0
    fired0 = ctx.fired
    try:
        try:
            res = ["ok", canon.canon(_call(op))]
        except sched.SimAbort:
            raise
        except Exception as e:
            res = canon.canon_exc(e)
    finally:
        ctx.armed = None
        ctx.stall = None
    if ctx.fired != fired0:
        res = res + ["fault-fired"]
    return res


def _probe_ops(plan: dict) -> List[list]:
    """Later-results phase: every operation again (warm) + variants that miss the
    top-level lru caches but hit the deeper shared state."""
    ops = [op for th in plan["threads"] for op in th]
    seen = set()
    extra = []
    for op in ops:
        t = op[1]
        if t in seen:
            continue
        seen.add(t)
        if pool.DATA[t]:
            extra.append(["des", t, 0, "fresh"])
            extra.append(["des", t, 0, "prefix"])
        if pool.VALUES[t]:
            extra.append(["ser", t, 0, "fresh"])
            extra.append(["ser_any", t, 0, "default"])
        extra.append(["des_schema", t, 0, "default"])
        extra.append(["ser_schema", t, 0, "camel"])
    return ops + extra


_KNOBS_DONE = False


def _apply_knobs(plan: dict):
    if _KNOBS_DONE:  # forked from a process that already applied them (child_warm)
        return
    if plan.get("cache_size") is not None:
        from apischema import cache

        cache.set_size(plan["cache_size"])
    sys.setrecursionlimit(400)  # keep runaway recursion cheap and uniform
    n = plan.get("prefill") or 0
    if n:
        import apischema

        used = {op[1] for th in plan["threads"] for op in th}
        used_groups = {g for g, names in pool.GROUPS.items() if used & set(names)}
        import dataclasses as _dc

        others = [t for g in sorted(pool.GROUPS) if g not in used_groups for t in pool.GROUPS[g]]
        # dataclasses first: per-class memos are the ones that fill up
        others.sort(key=lambda t: not (isinstance(pool.TYPES[t], type) and _dc.is_dataclass(pool.TYPES[t])))
        for t in others[:n]:
            for fn in (apischema.deserialization_method, apischema.serialization_method):
                try:
                    fn(pool.TYPES[t])
                except Exception:
                    pass


def _arm_for(plan: dict, t: int, j: int, faults: bool):
    f = plan.get("fault")
    if faults and f and f["thread"] == t and f["op"] == j:
        return [f["cb"], f["n"]]
    return None


def child_warm(plan: dict, script: Optional[list] = None) -> dict:
    """Warm-process runs: the knobs (cache size, prefill of 140 / 300 other types) are applied once in
    this intermediate process and the baseline, the simulation and the fault-free baseline are forked
    from it -- the three still start from one and the same heap image, and the prefill (0.4-1 s, more
    than the rest of the run) is paid once instead of three times."""
    global _KNOBS_DONE
    from dst import proc

    _apply_knobs(plan)
    _KNOBS_DONE = True
    out = {"base": proc.fork_call(child_serial, plan, None, True), "sim": None, "base_nf": None}
    try:
        out["sim"] = proc.fork_call(child_simulate, plan, script)
    except proc.HarnessError as e:
        out["sim_error"] = str(e)
        return out
    if plan.get("fault"):
        out["base_nf"] = proc.fork_call(child_serial, plan, None, False)
    return out


def child_serial(plan: dict, order: Optional[List[List[int]]], faults: bool) -> dict:
    """Sequential execution. order = list of [thread, op index]; default thread order."""
    _apply_knobs(plan)
    if order is None:
        order = [[t, j] for t, th in enumerate(plan["threads"]) for j in range(len(th))]
    res: Dict[str, list] = {}
    for t, j in order:
        res["%d.%d" % (t, j)] = run_op(plan["threads"][t][j], _arm_for(plan, t, j, faults))
    post = [run_op(op) for op in _probe_ops(plan)]
    return {"pre": res, "post": post, "calls": dict(pool.CALLS)}


def child_simulate(plan: dict, script: Optional[list] = None) -> dict:
    _apply_knobs(plan)
    rng = random.Random(plan["seed"] ^ 0x5DEECE66D)
    strat = sched.make_strategy(["scripted", script] if script is not None else plan["strategy"])
    opcode_files = ()
    opcode_sites = None
    if plan.get("opcode") in (True, "files"):
        opcode_files = ("recursion.py", "cache.py", "methods.py", "conversions.py", "utils.py")
    elif plan.get("opcode") == "sites":
        from dst.c20 import sites as _sites

        global _SITE_MAP
        if _SITE_MAP is None:
            _SITE_MAP = _sites.scan(boot.apischema_dir())
        opcode_sites = _SITE_MAP
    sim = sched.Sim(
        rng,
        strat,
        trace_prefixes=(boot.apischema_dir(), pool.__file__),
        opcode_files=opcode_files,
        opcode_sites=opcode_sites,
        step_cap=STEP_CAP,
        probe_sites=PROBE_SITES,
    )
    res: Dict[str, list] = {}
    completion: List[List[int]] = []

    def body(t: int):
        def fn():
            for j, op in enumerate(plan["threads"][t]):
                st = plan.get("stall")
                res["%d.%d" % (t, j)] = run_op(op, _arm_for(plan, t, j, True),
                                               st["n"] if st and st["thread"] == t and st["op"] == j else None)
                completion.append([t, j])

        return fn

    rec = sched.run_sim(sim, [body(t) for t in range(len(plan["threads"]))])
    post = []
    if rec["outcome"] is None:
        post = [run_op(op) for op in _probe_ops(plan)]
    rec.update({"pre": res, "post": post, "completion": completion, "calls": dict(pool.CALLS)})
    return rec


# ---------------------------------------------------------------------- oracle


def _strip(r: list) -> list:
    return r[:3] if r and r[0] == "exc" else r[:2]


def compare(plan: dict, base: dict, sim: dict, base_nofault: Optional[dict]) -> Optional[dict]:
    """Return a violation dict or None."""
    if sim.get("outcome") == "harness-error":
        from dst import proc

        raise proc.HarnessError("scheduler failure inside the trace function:\n" + str(sim.get("harness_error")))
    if sim.get("outcome") == "deadlock":
        return {"class": "deadlock", "detail": sim.get("deadlock")}
    if sim.get("outcome") == "step-cap":
        return {"class": "step-cap", "detail": sim.get("steps")}
    f = plan.get("fault")
    armed_key = "%d.%d" % (f["thread"], f["op"]) if f else None
    for key in sorted(base["pre"]):
        exp = _strip(base["pre"][key])
        got = sim["pre"].get(key)
        if got is None:
            return {"class": "missing-result", "op": key}
        fired = got[-1] == "fault-fired"
        got = _strip(got)
        if key == armed_key:
            # the one operation inside which the fault actually fired is excused (InjectedFault,
            # or degraded where apischema deliberately swallows exceptions of user callables);
            # if it did not fire (compilation served by another thread) the fault-free result
            # is due
            if fired:
                continue
            if base_nofault is not None:
                exp = _strip(base_nofault["pre"][key])
        if got == exp:
            continue
        return _mismatch("", key, exp, got)
    for i, (e, g) in enumerate(zip(base["post"], sim["post"])):
        if _strip(e) != _strip(g):
            return _mismatch("later-", "post.%d" % i, _strip(e), _strip(g))
    return None


def _mismatch(prefix: str, key: str, exp: list, got: list) -> dict:
    if got[0] == "exc" and (exp[0] != "exc" or exp[1] != got[1]):
        cls = "%sunexpected-exception:%s" % (prefix, got[1])
    else:
        cls = "%sresult-mismatch" % prefix
    return {"class": cls, "op": key, "expected": exp, "got": got}


def serial_orders(plan: dict, sim: dict, rng: random.Random, n_random: int = 30) -> List[List[List[int]]]:
    """Candidate serial orders that could explain concurrent results."""
    lens = [len(th) for th in plan["threads"]]
    orders = []
    comp = sim.get("completion") or []
    if len(comp) == sum(lens):
        orders.append(comp)
    rev = [[t, j] for t in reversed(range(len(lens))) for j in range(lens[t])]
    orders.append(rev)
    for _ in range(n_random):
        ptr = [0] * len(lens)
        o = []
        while True:
            c = [t for t in range(len(lens)) if ptr[t] < lens[t]]
            if not c:
                break
            t = c[rng.randrange(len(c))]
            o.append([t, ptr[t]])
            ptr[t] += 1
        if o not in orders:
            orders.append(o)
    return orders
