"""C20 check driver: batches of seeded runs, violation confirmation, minimisation,
replay files, evidence."""
import json
import os
import random
import sys
import time
from typing import Dict, List, Optional

from dst import boot, common, ddmin, proc
from dst.c20 import engine, pool

PROP = "C20"

TIERS = {
    # runs: number of seeds; budget_s: wall guard (no new run is issued after it)
    "quick": {"runs": 9000, "budget_s": 150},
    "thorough": {"runs": 120000, "budget_s": 1500},
}


def evaluate(plan: dict, script: Optional[list] = None, explain: bool = True) -> dict:
    """Run baseline + simulation (+ what is needed to judge) for one plan.

    Runs in a pristine process (worker or coordinator); forks every execution."""
    opcode_crash = False
    base = sim = base_nf = None
    if plan.get("prefill"):
        trio = proc.fork_call(engine.child_warm, plan, script, timeout=4 * proc.CHILD_TIMEOUT_S)
        if "sim_error" not in trio:
            base, sim, base_nf = trio["base"], trio["sim"], trio["base_nf"]
        # else: the simulation child died (opcode tracing): take the ordinary path with its fallback
    if sim is None:
        base = proc.fork_call(engine.child_serial, plan, None, True)
        try:
            sim = proc.fork_call(engine.child_simulate, plan, script)
        except proc.HarnessError as e:
            # CPython 3.12.1 can segfault under opcode-level tracing (instrumentation of a code object
            # while another thread is parked inside it; generator frames; exception tables).  The
            # crash is the interpreter's, not the tree's: fall back to line granularity for this plan
            # and count it.  A crash at line granularity stays a harness error.
            if not plan.get("opcode") or "exited with status" not in str(e):
                raise
            opcode_crash = True
            plan = dict(plan, opcode=False)
            sim = proc.fork_call(engine.child_simulate, plan, script)
        base_nf = None
        if plan.get("fault"):
            base_nf = proc.fork_call(engine.child_serial, plan, None, False)
    v = engine.compare(plan, base, sim, base_nf)
    explained = False
    if v is not None and explain and v["class"] not in ("deadlock", "step-cap", "missing-result"):
        rng = random.Random(plan["seed"] ^ 0xABCDEF)
        for order in engine.serial_orders(plan, sim, rng):
            b2 = proc.fork_call(engine.child_serial, plan, order, True)
            nf2 = proc.fork_call(engine.child_serial, plan, order, False) if plan.get("fault") else None
            if engine.compare(plan, b2, sim, nf2) is None:
                explained = True
                break
    fired = sum(1 for r in sim.get("pre", {}).values() if r and r[-1] == "fault-fired")
    return {
        "violation": None if explained else v,
        "explained": bool(explained and v is not None),
        "steps": sim["steps"],
        "digest": sim["digest"],
        "conflict": sim["conflict"],
        "switches": sim["switches"],
        "n_preempt": sum(1 for s in sim["switches"] if s[1] == "p"),
        "probes": sim["probes"],
        "lock_contention": sim["lock_contention"],
        "lock_acquires": sim["lock_acquires"],
        "stalls": sim.get("stalls", 0),
        "fault_fired": fired,
        "ops": len(base["pre"]) + len(base["post"]),
        "results_digest": _rdigest(sim),
        "exc_ops": sum(1 for r in base["pre"].values() if r[0] == "exc"),
        "opcode_crash": opcode_crash,
    }


def _rdigest(sim: dict) -> str:
    import hashlib

    h = hashlib.blake2b(digest_size=8)
    h.update(json.dumps([sim.get("pre"), sim.get("post")], sort_keys=True).encode())
    return h.hexdigest()


def fingerprint(r: dict) -> list:
    v = r.get("violation")
    return [r["digest"], r["conflict"], r["results_digest"], r["steps"], v["class"] if v else None]


def handler(task: dict) -> dict:
    plan = engine.make_plan(task["seed"], task["tier"])
    out = evaluate(plan)
    out["index"] = task["index"]
    out["seed"] = task["seed"]
    out["plan_brief"] = {
        "threads": plan["threads"],
        "strategy": plan["strategy"],
        "opcode": plan["opcode"],
        "cache_size": plan["cache_size"],
        "prefill": plan.get("prefill", 0),
        "stall": plan.get("stall"),
        "fault": plan["fault"],
    }
    if out["violation"] is None:
        out.pop("switches")  # keep pipes small
    return out


# ------------------------------------------------------------------ minimisation


def _fails_with(plan: dict, script: list, cls: str) -> bool:
    try:
        r = evaluate(plan, script)
    except proc.HarnessError:
        return False
    return r["violation"] is not None and r["violation"]["class"] == cls


def minimise(plan: dict, script: list, cls: str, budget_s: float = 120.0) -> (dict, list):
    t0 = time.monotonic()

    def left():
        return budget_s - (time.monotonic() - t0)

    # 1. schedule: a dense random schedule (tens of thousands of switches) is first replaced by a
    #    sparse one that fails the same way, when a bounded search finds one
    if len(script) > 300:
        best = None
        for k in range(10):
            p2 = dict(plan, seed=(plan["seed"] + 104729 * (k + 1)) & 0xFFFFFFFFFFFF)
            p2["strategy"] = [["pct", 2, 4000], ["pct", 3, 8000], ["uniform", 0.002], ["uniform", 0.01],
                              ["lazyinit", 0.6, 0.3]][k % 5]
            try:
                r = evaluate(p2)
            except proc.HarnessError:
                continue
            if r["violation"] is not None and r["violation"]["class"] == cls:
                if best is None or len(r["switches"]) < len(best[1]):
                    best = (p2, r["switches"])
            if left() < budget_s * 0.6:
                break
        if best is not None and len(best[1]) < len(script):
            plan, script = best
    script = ddmin.ddmin(script, lambda s: left() > 0 and _fails_with(plan, s, cls), budget=250)
    # 2. workload: drop operations / fault / knobs, re-searching a schedule
    changed = True
    while changed and left() > 0:
        changed = False
        cands = []
        if plan.get("fault"):
            c = dict(plan, fault=None)
            cands.append(c)
        if plan.get("cache_size") is not None:
            cands.append(dict(plan, cache_size=None))
        if plan.get("prefill"):
            cands.append(dict(plan, prefill=0))
        if plan.get("stall"):
            cands.append(dict(plan, stall=None))
        if plan.get("opcode"):
            cands.append(dict(plan, opcode=False))
        for t, th in enumerate(plan["threads"]):
            for j in range(len(th)):
                if sum(len(x) for x in plan["threads"]) <= 1:
                    continue
                nt = [list(x) for x in plan["threads"]]
                del nt[t][j]
                # the two per-operation faults (raise / stall) follow their operation
                marks = {"fault": plan.get("fault"), "stall": plan.get("stall")}
                skip = False
                for key, f in list(marks.items()):
                    if f and f["thread"] == t:
                        if f["op"] == j:
                            skip = True
                        elif f["op"] > j:
                            marks[key] = dict(f, op=f["op"] - 1)
                if skip:
                    continue
                if not nt[t]:
                    if len(nt) <= 2 and any(not x for x in nt):
                        # keep >= 1 op per thread for 2 threads; allow removing whole thread if >2
                        continue
                    del nt[t]
                    for key, f in list(marks.items()):
                        if f:
                            if f["thread"] == t:
                                skip = True
                            elif f["thread"] > t:
                                marks[key] = dict(f, thread=f["thread"] - 1)
                    if skip:
                        continue
                cands.append(dict(plan, threads=nt, fault=marks["fault"], stall=marks["stall"]))
        for c in cands:
            if left() <= 0:
                break
            found = _search_schedule(c, cls, script, tries=12)
            if found is not None:
                plan, script = c, found
                script = ddmin.ddmin(script, lambda s: left() > 0 and _fails_with(plan, s, cls), budget=120)
                changed = True
                break
    return plan, script


def _search_schedule(plan: dict, cls: str, script: list, tries: int) -> Optional[list]:
    # the old script first (step indices may still fit), then fresh random schedules
    if _fails_with(plan, script, cls):
        return script
    for k in range(tries):
        p = dict(plan, seed=(plan["seed"] + 7919 * (k + 1)) & 0xFFFFFFFFFFFF)
        p["strategy"] = [["uniform", 0.05], ["uniform", 0.01], ["uniform", 0.2], ["pct", 2, 2000]][k % 4]
        try:
            r = evaluate(p)
        except proc.HarnessError:
            continue
        if r["violation"] is not None and r["violation"]["class"] == cls:
            plan["seed"] = p["seed"]
            plan["strategy"] = p["strategy"]
            return r["switches"]
    return None


# ------------------------------------------------------------------ known findings


def signature(plan: dict, v: dict) -> dict:
    types = sorted({op[1] for th in plan["threads"] for op in th})
    return {"class": v["class"], "types": types}


def match_known(plan: dict, v: dict, known: List[dict]) -> Optional[dict]:
    sig = signature(plan, v)
    for k in known:
        if k.get("status") != "known":
            continue
        ks = k.get("signature", {})
        if ks.get("class") == sig["class"] and set(ks.get("types", sig["types"])) >= set(sig["types"]):
            return k
    return None


# ------------------------------------------------------------------ replay


def replay(path: str) -> int:
    with open(path) as f:
        doc = json.load(f)
    plan = doc["plan"]
    r = evaluate(plan, doc["schedule"])
    v = r["violation"]
    ok_digest = (doc.get("digest") in (None, r["digest"]))
    if v is not None:
        print("replayed: class=%s op=%s digest=%s (recorded %s)%s" % (
            v["class"], v.get("op"), r["digest"], doc.get("digest"), "" if ok_digest else " DIGEST-DIFFERS"))
        print(json.dumps(v)[:1500])
        print("VIOLATION property=%s replay=%s" % (PROP, path))
        return 1
    print("replay: no violation (digest %s, recorded %s)" % (r["digest"], doc.get("digest")))
    return 0


def make_replay_doc(plan: dict, script: list, v: dict, r: dict, batch: int, index: int) -> dict:
    return {
        "property": PROP,
        "tree": boot.tree_fingerprint(),
        "batch_seed": batch,
        "run": index,
        "plan": plan,
        "gen_seed": pool.GEN_SEED,
        "schedule": script,
        "violation": v,
        "digest": r["digest"],
        "steps": r["steps"],
        "how": "./check C20 --replay <this file>  (baseline child vs scripted simulation child)",
    }


# ------------------------------------------------------------------ main


def main(tier: str, replay_path: Optional[str] = None, runs: Optional[int] = None,
         budget_s: Optional[float] = None, start: int = 0) -> int:
    timer = common.Timer()
    boot.load_apischema()
    engine.assert_pristine()
    if replay_path:
        return replay(replay_path)
    from dst.c20 import reach

    reach.compute()  # before the workers are forked: plans are site-directed
    reach.clusters()
    cfg = TIERS[tier]
    n = runs if runs is not None else common.env_int("VERIF_RUNS", cfg["runs"])
    budget = budget_s if budget_s is not None else common.env_float("VERIF_BUDGET_S", cfg["budget_s"])
    batch = common.batch_seed()
    known = common.load_known(PROP)
    deadline = time.monotonic() + budget
    tasks = ({"index": i, "seed": engine.run_seed(PROP, batch, i), "tier": tier} for i in range(start, start + n))

    agg = Agg()
    violations = []
    stop_flag = []
    for res in proc.pool_map(handler, tasks, deadline=deadline, stop=lambda: len(violations) >= 3):
        if "harness_error" in res:
            agg.harness_errors.append(res["harness_error"][-600:])
            continue
        r = res["ok"]
        agg.add(r)
        if r["violation"] is not None:
            violations.append(r)

    # known findings are replayed at the start in the design; here: after the batch
    rc = 0
    reported = 0
    for k in known:
        if k.get("status") == "known" and k.get("replay"):
            p = os.path.join(common.VERIF, k["replay"])
            with open(p) as f:
                doc = json.load(f)
            rr = evaluate(doc["plan"], doc["schedule"])
            if rr["violation"] is not None:
                print("KNOWN-FINDING: property=%s %s" % (PROP, k["what"]))
    seen_classes = set()
    for r in sorted(violations, key=lambda x: x["index"]):
        plan = engine.make_plan(r["seed"], tier)
        v = r["violation"]
        # confirm in fresh children, scripted
        try:
            rr = evaluate(plan, r["switches"])
        except proc.HarnessError as e:
            agg.harness_errors.append(str(e)[-600:])
            continue
        if rr["violation"] is None or rr["violation"]["class"] != v["class"]:
            agg.harness_errors.append("violation at run %d did not reproduce from its schedule" % r["index"])
            continue
        k = match_known(plan, v, known)
        if k is not None:
            print("KNOWN-FINDING: property=%s %s" % (PROP, k["what"]))
            continue
        if v["class"] in seen_classes:
            continue
        seen_classes.add(v["class"])
        mplan, mscript = minimise(plan, r["switches"], v["class"],
                                  budget_s=common.env_float("VERIF_MINIMISE_S", 90.0))
        fin = evaluate(mplan, mscript)
        if fin["violation"] is None:
            mplan, mscript, fin = plan, r["switches"], rr
        doc = make_replay_doc(mplan, mscript, fin["violation"], fin, batch, r["index"])
        path = common.write_replay(PROP, "%d-%d" % (batch, r["index"]), doc)
        common.log("violation: run %d class=%s ops=%d switches=%d (from %d)" % (
            r["index"], v["class"], sum(len(t) for t in mplan["threads"]), len(mscript), len(r["switches"])))
        common.log(json.dumps(fin["violation"])[:1200])
        print("VIOLATION property=%s replay=%s" % (PROP, path))
        reported += 1
        rc = 1

    wall = timer.elapsed()
    cov = agg.coverage(wall, tier, n, budget)
    common.write_evidence(
        PROP, tier, batch, "exploration", cov, wall, reported,
        assumptions=[
            "pre-emption points are the call/line/return (opcode in a fifth of thorough runs) events of "
            "frames in the apischema package and the workload callbacks; stdlib/C code runs atomically as under the GIL",
            "oracle = same plan executed sequentially in a child forked from the same pristine zygote; "
            "a mismatch explained by another serial order of the operations is not a violation",
            "threading.Lock/RLock of the tree under test are cooperative simulated locks; _thread-level or "
            "Condition-based blocking would escape the seam (reported as harness error, never as a verdict)",
            "sampling, not enumeration: a clean batch is evidence, not proof",
        ],
    )
    if agg.harness_errors:
        common.log("HARNESS ERRORS (%d), first: %s" % (len(agg.harness_errors), agg.harness_errors[0]))
        if rc == 0:
            return 2
    common.log("C20 %s: %d runs, %d ops compared, %d distinct schedules, %.1fs, violations=%d" % (
        tier, agg.runs, agg.ops, len(agg.digests), wall, reported))
    return rc


class Agg:
    def __init__(self):
        self.runs = 0
        self.ops = 0
        self.steps = 0
        self.preempt = 0
        self.digests = set()
        self.conflicts = set()
        self.rdigests = set()
        self.probes: Dict[str, int] = {}
        self.runs_with_probe: Dict[str, int] = {}
        self.fault_armed = 0
        self.fault_fired = 0
        self.cache_pressure = 0
        self.prefill_runs = 0
        self.stall_armed = 0
        self.stall_fired = 0
        self.opcode_runs = 0
        self.opcode_kinds: Dict[str, int] = {}
        self.opcode_crashes = 0
        self.lock_contention = 0
        self.lock_acquires = 0
        self.explained = 0
        self.strategies: Dict[str, int] = {}
        self.nthreads: Dict[str, int] = {}
        self.exc_ops = 0
        self.samples = []
        self.harness_errors: List[str] = []
        self.fault_free_runs = 0

    def add(self, r: dict):
        self.runs += 1
        self.ops += r["ops"]
        self.steps += r["steps"]
        self.preempt += r["n_preempt"]
        self.digests.add(r["digest"])
        if r["n_preempt"] > 0:
            self.conflicts.add(r["conflict"])
        self.rdigests.add(r["results_digest"])
        for k, v in r["probes"].items():
            self.probes[k] = self.probes.get(k, 0) + v
            self.runs_with_probe[k] = self.runs_with_probe.get(k, 0) + 1
        pb = r["plan_brief"]
        if pb["fault"]:
            self.fault_armed += 1
            self.fault_fired += 1 if r["fault_fired"] else 0
        else:
            self.fault_free_runs += 1
        if pb["cache_size"] is not None:
            self.cache_pressure += 1
        if pb.get("prefill"):
            self.prefill_runs += 1
        if pb.get("stall"):
            self.stall_armed += 1
            self.stall_fired += 1 if r.get("stalls") else 0
        if pb["opcode"]:
            self.opcode_runs += 1
            self.opcode_kinds[str(pb["opcode"])] = self.opcode_kinds.get(str(pb["opcode"]), 0) + 1
        self.opcode_crashes += 1 if r.get("opcode_crash") else 0
        self.lock_contention += r["lock_contention"]
        self.lock_acquires += r["lock_acquires"]
        self.explained += 1 if r["explained"] else 0
        s = pb["strategy"][0]
        self.strategies[s] = self.strategies.get(s, 0) + 1
        nt = str(len(pb["threads"]))
        self.nthreads[nt] = self.nthreads.get(nt, 0) + 1
        self.exc_ops += r["exc_ops"]
        if len(self.samples) < 4:
            self.samples.append({
                "run": r["index"], "seed": r["seed"], "plan": pb, "steps": r["steps"],
                "preemptions": r["n_preempt"], "schedule_digest": r["digest"],
            })

    def coverage(self, wall: float, tier: str, n: int, budget: float) -> dict:
        stuck = [k for k in sorted(set(engine.PROBE_SITES.values())) if not self.probes.get(k)]
        return {
            "evaluations": self.ops,
            "distinct_nontrivial": len(self.conflicts),
            "rule": (
                "one evaluation = one public call (concurrent or in the later-results phase) compared with the "
                "sequential baseline; distinct_nontrivial = number of distinct conflict orders, i.e. distinct "
                "sequences in which different threads entered the instrumented shared sites (is_recursive, "
                "recursion_cache, the lru-cached factories, lazy getters), counted only over runs with >= 1 pre-emption"
            ),
            "samples": self.samples,
            "runs": self.runs,
            "runs_requested": n,
            "budget_s": budget,
            "runs_per_hour": int(self.runs / wall * 3600) if wall > 0 else 0,
            "seeds": "run i uses blake2b('C20:<VERIF_SEED>:<i>')",
            "simulated_time": "none - apischema has no clock; the unit is the logical step (one trace event)",
            "steps": self.steps,
            "preemptions": self.preempt,
            "distinct_schedule_digests": len(self.digests),
            "distinct_result_digests": len(self.rdigests),
            "strategies": self.strategies,
            "threads_per_run": self.nthreads,
            "faults": {
                "preemption": self.preempt,
                "callback_fault_armed_runs": self.fault_armed,
                "callback_fault_fired_runs": self.fault_fired,
                "cache_pressure_runs": self.cache_pressure,
                "warm_process_prefill_runs": self.prefill_runs,
                "stalled_callback_armed_runs": self.stall_armed,
                "stalled_callback_fired_runs": self.stall_fired,
                "opcode_granularity_runs": self.opcode_runs,
                "opcode_granularity_by_kind": self.opcode_kinds,
                "opcode_runs_rerun_at_line_granularity_after_interpreter_crash": self.opcode_crashes,
                "lock_contention_blocks": self.lock_contention,
                "lock_acquires": self.lock_acquires,
                "fault_free_runs": self.fault_free_runs,
            },
            "probes_hits": self.probes,
            "probes_runs": self.runs_with_probe,
            "probes_stuck_at_zero": stuck,
            "explained_by_serial_order": self.explained,
            "baseline_ops_raising_sequentially": self.exc_ops,
            "components": {
                "real": ["apischema (all of it, from the working tree)", "functools.lru_cache", "typing", "OS threads"],
                "stub": ["scheduler (baton passing at trace events)", "threading.Lock/RLock seam",
                         "workload classes and callbacks (dst/c20/pool.py)"],
            },
            "generated_class_graphs": pool.GEN_INFO,
            "lazy_init_site_reach": __import__("dst.c20.reach", fromlist=["STATS"]).STATS,
            "aslr_off": boot.aslr_off,
            "harness_errors": len(self.harness_errors),
            "tree": boot.tree_fingerprint(),
        }
