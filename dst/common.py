"""Shared plumbing of the checks: tiers, evidence, replay files, known findings."""
import json
import os
import time
from typing import Any, Dict, List, Optional

VERIF = os.path.dirname(os.path.dirname(os.path.abspath(__file__)))
EVIDENCE_DIR = os.path.join(VERIF, "evidence")
REPLAY_DIR = os.path.join(VERIF, "replays")
KNOWN_FILE = os.path.join(VERIF, "known_findings.json")


def env_int(name: str, default: int) -> int:
    v = os.environ.get(name)
    try:
        return int(v) if v not in (None, "") else default
    except ValueError:
        return default


def env_float(name: str, default: float) -> float:
    v = os.environ.get(name)
    try:
        return float(v) if v not in (None, "") else default
    except ValueError:
        return default


def batch_seed() -> int:
    return env_int("VERIF_SEED", 0)


def load_known(prop: str) -> List[dict]:
    """Entries of known_findings.json for a property (read-only, never written here)."""
    try:
        with open(KNOWN_FILE) as f:
            data = json.load(f)
    except FileNotFoundError:
        return []
    return [e for e in data.get("findings", []) if e.get("property") == prop]


def write_replay(prop: str, tag: str, obj: dict) -> str:
    os.makedirs(REPLAY_DIR, exist_ok=True)
    path = os.path.join(REPLAY_DIR, "%s-%s.json" % (prop, tag))
    with open(path, "w") as f:
        json.dump(obj, f, indent=1, sort_keys=True)
        f.write("\n")
    return path


def write_evidence(
    prop: str,
    tier: str,
    seed: int,
    level: str,
    coverage: Dict[str, Any],
    wall_s: float,
    violations: int,
    assumptions: List[str],
) -> str:
    os.makedirs(EVIDENCE_DIR, exist_ok=True)
    path = os.path.join(EVIDENCE_DIR, "%s.json" % prop)
    doc = {
        "property_id": prop,
        "tier": tier,
        "seed": seed,
        "level": level,
        "coverage": coverage,
        "assumptions": assumptions,
        "wall_s": round(wall_s, 2),
        "violations": violations,
    }
    tmp = path + ".tmp"
    with open(tmp, "w") as f:
        json.dump(doc, f, indent=1, sort_keys=True)
        f.write("\n")
    os.replace(tmp, path)
    return path


class Timer:
    def __init__(self):
        self.t0 = time.monotonic()

    def elapsed(self) -> float:
        return time.monotonic() - self.t0


def log(*a):
    import sys

    print(*a, file=sys.stderr, flush=True)
