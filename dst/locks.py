"""Lock seam: cooperative ``threading.Lock`` / ``threading.RLock``.

apischema has no lock today; the seam exists so that a tree which *adds* one (for
instance the repair of the C20 race) neither hangs the simulator nor escapes it.
``install()`` must run before ``import apischema``: it rebinds ``threading.Lock`` and
``threading.RLock`` to the classes below, so both ``threading.RLock()`` and
``from threading import RLock`` in the tree under test resolve to them.

A simulated lock wraps a real one, which stays the single source of truth.  Called by a
thread that is not under simulation it simply delegates.  Called by a simulated thread
it never blocks the OS thread while holding the baton: a failed non-blocking acquire
marks the thread blocked and yields (``Sim.block_on``); ``release`` wakes the waiters,
which retry when scheduled.  All threads blocked => ``Sim`` reports a deadlock.

Outside a simulation a blocking acquire of a lock that cannot be obtained within
``HANG_GUARD_S`` raises (a self-deadlock in single-threaded code is a defect of the tree
under test and must surface as an exception, not as a hung harness).
"""
import _thread
import threading

from dst import sched

_real_lock = _thread.allocate_lock
_real_rlock = _thread.RLock
_orig = (threading.Lock, threading.RLock)

HANG_GUARD_S = 5.0
created = 0


class _SimBase:
    _factory = None

    def __init__(self):
        global created
        created += 1
        self._real = self._factory()

    def acquire(self, blocking=True, timeout=-1):
        sim = sched.CURRENT
        if sim is not None and sim.in_sim_thread():
            sim.lock_acquires += 1
            while not self._real.acquire(False):
                if not blocking or timeout == 0:
                    return False
                sim.block_on(self)
            return True
        if not blocking:
            return self._real.acquire(False)
        if timeout is not None and timeout >= 0:
            return self._real.acquire(True, timeout)
        if self._real.acquire(True, HANG_GUARD_S):
            return True
        raise RuntimeError("dst: lock not obtainable outside simulation (self-deadlock?)")

    def release(self):
        self._real.release()
        sim = sched.CURRENT
        if sim is not None and sim.active:
            sim.wake_waiters(self)

    __enter__ = acquire

    def __exit__(self, *a):
        self.release()

    def locked(self):
        if self._real.acquire(False):
            self._real.release()
            return False
        return True

    def _at_fork_reinit(self):
        self._real = self._factory()

    def __repr__(self):
        return "<%s #%x>" % (type(self).__name__, id(self) & 0xFFFF)


class SimLock(_SimBase):
    _factory = staticmethod(_real_lock)


class SimRLock(_SimBase):
    _factory = staticmethod(_real_rlock)

    def locked(self):  # pragma: no cover
        raise AttributeError("locked")

    # threading.Condition support
    def _is_owned(self):
        return self._real._is_owned()

    def _release_save(self):
        return self._real._release_save()

    def _acquire_restore(self, state):
        return self._real._acquire_restore(state)


_installed = False


def install():
    global _installed
    if _installed:
        return
    threading.Lock = SimLock
    threading.RLock = SimRLock
    _installed = True


def uninstall():  # for self-tests only
    global _installed
    threading.Lock, threading.RLock = _orig
    _installed = False
