"""./check <property|selftest> [--tier quick|thorough] [--replay FILE] [--runs N] [--budget S]"""
import argparse
import os
import sys


def main(argv=None) -> int:
    here = os.path.dirname(os.path.dirname(os.path.abspath(__file__)))
    if here not in sys.path:
        sys.path.insert(0, here)
    from dst import boot

    boot.ensure_booted()
    ap = argparse.ArgumentParser(prog="check")
    ap.add_argument("what")
    ap.add_argument("--tier", default=os.environ.get("VERIF_TIER") or "quick", choices=["quick", "thorough"])
    ap.add_argument("--replay")
    ap.add_argument("--runs", type=int)
    ap.add_argument("--budget", type=float)
    ap.add_argument("--start", type=int, default=0)
    ap.add_argument("rest", nargs="*")
    a = ap.parse_args(argv)
    from dst import proc

    if a.replay and a.what == "C20":
        # the generated part of the workload is a function of the batch seed recorded in the file
        import json

        with open(a.replay) as f:
            os.environ["DST_GEN_SEED"] = str(json.load(f).get("gen_seed", 0))
    boot.load_apischema()
    try:
        if a.what == "C20":
            from dst.c20 import check

            return check.main(a.tier, a.replay, a.runs, a.budget, a.start)
        if a.what == "C09":
            from dst.c09 import check

            return check.main(a.tier, a.replay, a.runs, a.budget, a.start)
        if a.what == "C15":
            from dst.c15 import check

            return check.main(a.tier, a.replay, a.runs, a.budget, a.start)
        if a.what == "c09-final":
            import json

            from dst.c09 import engine as e9

            print(json.dumps(e9.child_final_only(json.loads(sys.stdin.read()))))
            return 0
        if a.what == "selftest":
            from dst import selftest

            return selftest.main(a.rest)
        if a.what == "setup":
            from dst import setup

            return setup.main()
    except proc.HarnessError as e:
        print("HARNESS ERROR: %s" % e, file=sys.stderr)
        return 2
    except Exception:
        # an exception of the machinery is never a verdict: exit 2, not Python's default 1
        import traceback

        traceback.print_exc()
        print("HARNESS ERROR: unexpected exception in the check driver", file=sys.stderr)
        return 2
    print("unknown check %r" % a.what, file=sys.stderr)
    return 2


if __name__ == "__main__":
    sys.exit(main())
