"""./check selftest determinism <C20|C09|C15> [n_seeds]

Every seed is executed several times -- at two worker counts, and once more in a
launcher started under a different outer PYTHONHASHSEED (the re-exec must make it
irrelevant) -- and the event digests / result digests are diffed.  Any difference is a
harness error (exit 2), never a verdict."""
import json
import os
import subprocess
import sys

from dst import common, proc


def _module(prop):
    if prop == "C20":
        from dst.c20 import check, engine

        return check, engine
    if prop == "C09":
        from dst.c09 import check, engine

        return check, engine
    if prop == "C15":
        from dst.c15 import check, engine

        return check, engine
    raise SystemExit("unknown property " + prop)


def fingerprints(prop: str, n: int, workers: int, tier: str = "quick", batch: int = 0):
    check, engine = _module(prop)
    from dst.c20.engine import run_seed

    tasks = [{"index": i, "seed": run_seed(prop, batch, i), "tier": tier} for i in range(n)]
    out = {}
    for res in proc.pool_map(check.handler, tasks, workers=workers):
        if "harness_error" in res:
            out[str(res["task"]["index"])] = "HARNESS:" + res["harness_error"][-200:]
        else:
            out[str(res["ok"]["index"])] = check.fingerprint(res["ok"])
    return out


def determinism(prop: str, n: int) -> int:
    a = fingerprints(prop, n, 16)
    b = fingerprints(prop, n, 3)
    env = dict(os.environ)
    env.pop("DST_BOOTED", None)
    env["PYTHONHASHSEED"] = "12345"
    env["VERIF_WORKERS"] = "7"
    p = subprocess.run(
        [sys.executable, "-B", "-m", "dst.cli", "selftest", "fingerprints", prop, str(n)],
        env=env, capture_output=True, text=True, cwd=common.VERIF,
    )
    if p.returncode != 0:
        print(p.stderr[-2000:], file=sys.stderr)
        return 2
    c = json.loads(p.stdout.strip().splitlines()[-1])
    bad = [i for i in a if not (a[i] == b.get(i) == c.get(i))]
    harness = [i for i in a if str(a[i]).startswith("HARNESS")]
    print("determinism %s: %d seeds x 3 executions (16 workers, 3 workers, fresh launcher under "
          "PYTHONHASHSEED=12345 with 7 workers): %d differ, %d harness errors" % (prop, n, len(bad), len(harness)))
    for i in bad[:5]:
        print(" seed index", i, a[i], b.get(i), c.get(i))
    return 2 if bad or harness else 0


def main(rest) -> int:
    if not rest:
        print(__doc__)
        return 2
    if rest[0] == "determinism":
        prop = rest[1]
        n = int(rest[2]) if len(rest) > 2 else 200
        return determinism(prop, n)
    if rest[0] == "fingerprints":
        prop, n = rest[1], int(rest[2])
        print(json.dumps(fingerprints(prop, n, proc.n_workers())))
        return 0
    print(__doc__)
    return 2
