"""./check selftest determinism <C20|C09|C15> [n_seeds]
./check selftest scheduler      (deadlock detection, lock seam, scripted replay)
./check selftest workload       (no C20 workload family has order-dependent sequential semantics)

Every seed is executed several times -- at two worker counts, and once more in a
launcher started under a different outer PYTHONHASHSEED (the re-exec must make it
irrelevant) -- and the event digests / result digests are diffed.  Any difference is a
harness error (exit 2), never a verdict."""
import json
import os
import subprocess
import sys

from dst import common, proc


def _module(prop):
    if prop == "C20":
        from dst.c20 import check, engine

        return check, engine
    if prop == "C09":
        from dst.c09 import check, engine

        return check, engine
    if prop == "C15":
        from dst.c15 import check, engine

        return check, engine
    raise SystemExit("unknown property " + prop)


def fingerprints(prop: str, n: int, workers: int, tier: str = "quick", batch: int = 0):
    check, engine = _module(prop)
    from dst.c20.engine import run_seed

    if prop == "C20":
        from dst.c20 import reach

        reach.compute()
        reach.clusters()

    idx = list(range(n))
    if prop == "C09":  # half systematic prefix, half random histories (beyond the prefix)
        idx = list(range(0, 40000, max(1, 40000 // (n // 2)))) [: n // 2] + list(range(60000, 60000 + n - n // 2))
    tasks = [{"index": i, "seed": run_seed(prop, batch, i), "tier": tier, "batch": batch} for i in idx]
    out = {}
    for res in proc.pool_map(check.handler, tasks, workers=workers):
        if "harness_error" in res:
            out[str(res["task"]["index"])] = "HARNESS:" + res["harness_error"][-200:]
        else:
            out[str(res["ok"]["index"])] = check.fingerprint(res["ok"])
    return out


def determinism(prop: str, n: int) -> int:
    a = fingerprints(prop, n, 16)
    b = fingerprints(prop, n, 3)
    env = dict(os.environ)
    env.pop("DST_BOOTED", None)
    env["PYTHONHASHSEED"] = "12345"
    env["VERIF_WORKERS"] = "7"
    p = subprocess.run(
        [sys.executable, "-B", "-m", "dst.cli", "selftest", "fingerprints", prop, str(n)],
        env=env, capture_output=True, text=True, cwd=common.VERIF,
    )
    if p.returncode != 0:
        print(p.stderr[-2000:], file=sys.stderr)
        return 2
    c = json.loads(p.stdout.strip().splitlines()[-1])
    bad = [i for i in a if not (a[i] == b.get(i) == c.get(i))]
    harness = [i for i in a if str(a[i]).startswith("HARNESS")]
    print("determinism %s: %d seeds x 3 executions (16 workers, 3 workers, fresh launcher under "
          "PYTHONHASHSEED=12345 with 7 workers): %d differ, %d harness errors" % (prop, n, len(bad), len(harness)))
    for i in bad[:5]:
        print(" seed index", i, a[i], b.get(i), c.get(i))
    return 2 if bad or harness else 0


# ------------------------------------------------------------------ scheduler / lock seam unit tests


def _sched_child(case: str, seed: int, script=None) -> dict:
    """Runs inside a forked child: tiny synthetic workloads traced in *this* file."""
    import random
    import threading

    from dst import sched

    rng = random.Random(seed)
    strat = sched.make_strategy(["scripted", script] if script is not None else ["uniform", 0.3])
    sim = sched.Sim(rng, strat, trace_prefixes=(__file__,), step_cap=200000)
    log = []
    if case == "deadlock":
        a, b = threading.Lock(), threading.Lock()

        def t0():
            with a:
                for _ in range(5):
                    log.append(0)
                with b:
                    log.append("t0")

        def t1():
            with b:
                for _ in range(5):
                    log.append(1)
                with a:
                    log.append("t1")

        rec = sched.run_sim(sim, [t0, t1])
        return {"outcome": rec["outcome"], "contention": rec["lock_contention"]}
    if case == "mutex":
        lock = threading.RLock()
        shared = {"n": 0, "bad": 0}

        def worker():
            for _ in range(20):
                with lock:
                    with lock:  # re-entrant
                        v = shared["n"]
                        for _ in range(3):
                            pass
                        if shared["n"] != v:
                            shared["bad"] += 1
                        shared["n"] = v + 1

        rec = sched.run_sim(sim, [worker, worker, worker])
        return {"outcome": rec["outcome"], "n": shared["n"], "bad": shared["bad"],
                "contention": rec["lock_contention"], "switches": rec["switches"], "digest": rec["digest"]}
    if case == "race":
        shared = {"n": 0}

        def worker():
            for _ in range(20):
                v = shared["n"]
                for _ in range(2):
                    pass
                shared["n"] = v + 1

        rec = sched.run_sim(sim, [worker, worker])
        return {"outcome": rec["outcome"], "n": shared["n"], "switches": rec["switches"], "digest": rec["digest"]}
    raise ValueError(case)


def scheduler_tests() -> int:
    bad = 0
    dl = sum(1 for s in range(40) if proc.fork_call(_sched_child, "deadlock", s)["outcome"] == "deadlock")
    print("lock-order inversion: deadlock reported in %d/40 seeded schedules (must be > 0, never a hang)" % dl)
    bad += dl == 0
    lost = cont = 0
    for s in range(40):
        r = proc.fork_call(_sched_child, "mutex", s)
        lost += (r["n"] != 60) or r["bad"] > 0 or r["outcome"] is not None
        cont += r["contention"]
    print("simulated RLock: %d/40 runs lost an update (must be 0), %d contended acquires (must be > 0)" % (lost, cont))
    bad += lost != 0 or cont == 0
    racy = 0
    mism = 0
    for s in range(40):
        r = proc.fork_call(_sched_child, "race", s)
        racy += r["n"] != 40
        rr = proc.fork_call(_sched_child, "race", 0, r["switches"])
        mism += (rr["n"], rr["digest"]) != (r["n"], r["digest"])
    print("unsynchronised counter: %d/40 schedules lose an update (must be > 0); scripted replay of the recorded "
          "schedule differs in %d/40 (must be 0)" % (racy, mism))
    bad += racy == 0 or mism != 0
    return 2 if bad else 0


# ------------------------------------------------------------------ workload soundness


def _compile_seq(seq):
    import apischema
    from dst.c20 import pool

    out = []
    for n, d in seq:
        fn = apischema.deserialization_method if d == "d" else apischema.serialization_method
        try:
            fn(pool.TYPES[n])
            out.append("ok")
        except RecursionError:
            out.append("RecursionError")
        except Exception as e:
            out.append(type(e).__name__)
    return out


def _family_pairs(group):
    import apischema
    from dst.c20 import pool

    items = [(n, d) for n in pool.GROUPS[group] for d in "ds"]
    cold = {}
    for a in items:
        cold[a] = _compile_seq([a])[0]
        apischema.cache.reset()
    bad = []
    for a in items:
        for b in items:
            if a != b:
                r = _compile_seq([a, b])
                if r[1] != cold[b]:
                    bad.append([a, b, r[1], cold[b]])
            apischema.cache.reset()
    return bad


def workload_test() -> int:
    """The C20 oracle is "what the call returns sequentially": within every family of the
    workload the outcome of compiling a type must not depend on which other type of the family
    was compiled first (apischema's sequential recursion analysis is unsound for some shapes;
    those must not be in the workload)."""
    from dst.c20 import pool

    bad = 0
    n = 0
    for res in proc.pool_map(_family_pairs, sorted(pool.GROUPS)):
        n += 1
        if "harness_error" in res:
            print("harness error", res["harness_error"][-300:])
            bad += 1
        elif res["ok"]:
            bad += len(res["ok"])
            print("order-dependent family", res["task"], res["ok"][:3])
    print("workload: %d families (%d generated, gen seed %d), order-dependent ordered pairs of first uses: %d (must be 0)"
          % (n, pool.GEN_INFO["families"], pool.GEN_SEED, bad))
    return 2 if bad else 0


def main(rest) -> int:
    if not rest:
        print(__doc__)
        return 2
    if rest[0] == "determinism":
        prop = rest[1]
        n = int(rest[2]) if len(rest) > 2 else 200
        return determinism(prop, n)
    if rest[0] == "scheduler":
        return scheduler_tests()
    if rest[0] == "workload":
        return workload_test()
    if rest[0] == "fingerprints":
        prop, n = rest[1], int(rest[2])
        print(json.dumps(fingerprints(prop, n, proc.n_workers())))
        return 0
    print(__doc__)
    return 2
